#!/venv/bin/python
"""Launcher: fixes PYTHONHASHSEED, puts /repo first on sys.path, asserts that the
library under test is the current working tree of /repo, then runs the driver."""
import os
import sys

HERE = os.path.dirname(os.path.abspath(__file__))
REPO = os.environ.get("SIMFILE_REPO", "/repo")

if os.environ.get("PYTHONHASHSEED") != "0" and not os.environ.get("SIMV_KEEP_HASHSEED"):
    os.environ["PYTHONHASHSEED"] = "0"
    os.execv(sys.executable, [sys.executable] + sys.argv)

sys.path.insert(0, HERE)
sys.path.insert(0, REPO)
sys.dont_write_bytecode = True

import warnings  # noqa: E402
warnings.filterwarnings("ignore", category=UserWarning)
import simfile  # noqa: E402

if not os.path.abspath(simfile.__file__).startswith(os.path.abspath(REPO) + os.sep):
    print("HARNESS-ERROR: simfile imported from %s, not from %s" % (simfile.__file__, REPO))
    sys.exit(2)

from simv.driver import main  # noqa: E402

if __name__ == "__main__":
    sys.exit(main())
