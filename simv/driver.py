"""Batch driver: seeded run loop over worker processes, known-finding matching,
minimisation, replay files, evidence."""
import argparse
import array
import faulthandler
import hashlib
import importlib
import json
import multiprocessing
import os
import random
import subprocess
import sys
import time
import traceback
from collections import Counter
from concurrent.futures import ProcessPoolExecutor
from concurrent.futures.process import BrokenProcessPool

from .core import HarnessError, LibraryMisbehaved, RunResult, Violation, shrink, jdump

VERIF = os.path.dirname(os.path.dirname(os.path.abspath(__file__)))
REPO = os.environ.get("SIMFILE_REPO", "/repo")

WORKLOADS = {
    "C01": "edit", "C02": "edit", "C18": "edit",
    "C03": "load", "C04": "load",
    "C05": "mutate", "C06": "mutate",
    "C19": "discover", "C20": "discover",
}
LEVEL = {"C06": "fault_enumeration"}
RUNS = {
    # property: (quick, thorough) - fixed counts, so one seed explores the same runs anywhere
    "C01": (45000, 1000000), "C02": (36000, 800000), "C18": (40000, 600000),
    "C03": (12000, 200000), "C04": (120000, 2000000),
    "C05": (75000, 1500000), "C06": (3500, 60000),
    "C19": (45000, 1200000), "C20": (100000, 1500000),
}
BLOCK_WALL_CAP_S = 1500


def workload(prop):
    if prop not in WORKLOADS:
        raise HarnessError("no workload for property %r" % (prop,))
    return importlib.import_module("simv.workloads." + WORKLOADS[prop])


def run_seed(prop, seed, run):
    h = hashlib.sha256(("simfile-verif|%s|%d|%d" % (prop, seed, run)).encode()).digest()
    return int.from_bytes(h[:8], "big")


def generate(prop, seed, run, tier):
    rng = random.Random(run_seed(prop, seed, run))
    sc = workload(prop).generate(prop, rng, run, tier)
    sc["seed"] = seed
    sc["run"] = run
    return sc


# -------------------------------------------------------------- known findings
_KF = None


def known_findings():
    global _KF
    if _KF is None:
        path = os.path.join(VERIF, "known_findings.json")
        try:
            with open(path) as f:
                _KF = json.load(f)["findings"]
        except FileNotFoundError:
            _KF = []
    return _KF


def kf_match(v):
    """The known (not fixed) finding this violation is an instance of, or None."""
    for e in known_findings():
        if e.get("status") != "known":
            continue
        if e["property"] != v.prop or e["clause"] != v.clause:
            continue
        m = e.get("match", {})
        if all(v.detail.get(k) == val for k, val in m.items()):
            return e
    return None


# ------------------------------------------------------------------ execution
def _lib_frame(tb):
    """Did the exception come out of the library under test?  True when some frame
    of the traceback is inside /repo (or the tokenizer dependency) and the innermost
    frame is not harness code (an exception raised by the simulator's own stubs while
    the library calls them is a harness matter)."""
    seen_lib = False
    last = None
    while tb is not None:
        fn = tb.tb_frame.f_code.co_filename
        if fn.startswith(REPO + "/") or "/msdparser/" in fn:
            seen_lib = True
        last = fn
        tb = tb.tb_next
    if last is None or last.startswith(VERIF + "/"):
        return False
    return seen_lib


def _storage_error_through_lib(e):
    """A storage-style error (OSError family / fs.errors) that a stub - or the real function a
    stub routed to - raised while the library was calling it, and that the library let
    escape: that is the stub answering the library (file not found, not a directory, ...),
    not the harness failing."""
    try:
        import fs.errors as _fse
        kinds = (OSError, _fse.FSError)
    except Exception:
        kinds = (OSError,)
    if not isinstance(e, kinds):
        return False
    tb = e.__traceback__
    seen_lib = False
    while tb is not None:
        fn = tb.tb_frame.f_code.co_filename
        if fn.startswith(REPO + "/"):
            seen_lib = True
        tb = tb.tb_next
    return seen_lib


def execute(sc):
    """Execute one scenario; unexpected exceptions raised from inside the library
    become violations, anything else is a harness error."""
    prop = sc["property"]
    wl = workload(prop)
    try:
        return wl.execute(sc)
    except HarnessError:
        raise
    except LibraryMisbehaved as e:
        res = RunResult()
        res.evaluations = 1
        res.violate(prop, e.clause, **e.detail)
        return res
    except Exception as e:
        if _lib_frame(e.__traceback__) or _storage_error_through_lib(e):
            res = RunResult()
            res.evaluations = 1
            res.violate(prop, "unexpected-library-exception:" + type(e).__name__,
                        message=str(e)[:200],
                        where=traceback.format_tb(e.__traceback__)[-1].strip()[:300])
            return res
        raise HarnessError("harness exception in run %s: %s\n%s"
                           % (sc.get("run"), e, traceback.format_exc()))


def unmatched(res):
    out = []
    for v in res.violations:
        if kf_match(v) is None:
            out.append(v)
    return out


def run_block(args):
    """Run one block in a process of its own (a fork of this worker, which never
    executes scenarios itself): whatever state the library keeps inside the process
    is then a function of the block's runs alone, so a violation that needs history
    from earlier runs replays from its block (see block_replay)."""
    import pickle
    r, w = os.pipe()
    pid = os.fork()
    if pid == 0:
        code = 0
        try:
            os.close(r)
            out = _run_block_inner(args)
            with os.fdopen(w, "wb") as f:
                pickle.dump(out, f, protocol=pickle.HIGHEST_PROTOCOL)
        except BaseException:
            traceback.print_exc()
            code = 3
        finally:
            os._exit(code)
    os.close(w)
    with os.fdopen(r, "rb") as f:
        data = f.read()
    _, status = os.waitpid(pid, 0)
    if status != 0 or not data:
        return {"harness_error": "block %r: child process ended with status %r (wall cap %ds, or crash)"
                                 % (args[2:4], status, BLOCK_WALL_CAP_S)}
    return pickle.loads(data)


def _run_block_inner(args):
    prop, seed, start, stop, tier, fixed_idx = args
    faulthandler.dump_traceback_later(BLOCK_WALL_CAP_S, exit=True)
    sys.unraisablehook = lambda u: None
    agg = {"evaluations": 0, "stats": Counter(), "distinct": set(), "violations": [],
           "samples": [], "digest": hashlib.sha256(), "known": Counter(), "steps": 0,
           "runs": 0, "nontrivial_runs": 0, "harness_error": None}
    wl = workload(prop)
    scenarios = []
    if fixed_idx is not None:
        fx = wl.fixed_scenarios(prop)
        for i in fixed_idx:
            sc = fx[i]
            sc.setdefault("seed", seed)
            sc.setdefault("run", -1 - i)
            scenarios.append(sc)
    try:
        for run in range(start, stop):
            scenarios.append(None)
        idx = 0
        for run in list(range(-len(fixed_idx or []), 0)) + list(range(start, stop)):
            sc = scenarios[idx] if scenarios[idx] is not None else generate(prop, seed, run, tier)
            idx += 1
            res = execute(sc)
            agg["runs"] += 1
            agg["evaluations"] += res.evaluations
            agg["stats"].update(res.stats)
            if res.distinct:
                agg["nontrivial_runs"] += 1
            agg["distinct"] |= res.distinct
            agg["steps"] += res.steps
            agg["digest"].update(res.digest.digest())
            for v in res.violations:
                e = kf_match(v)
                if e is not None:
                    agg["known"][e["id"]] += 1
                elif len(agg["violations"]) < 8:
                    agg["violations"].append((sc.get("run", run), sc, v.to_json(),
                                              {"first": start, "stop": stop, "fixed": fixed_idx}))
                else:
                    agg["stats"]["violations-not-kept"] += 1
            if len(agg["samples"]) < 2 and res.distinct:
                agg["samples"].append(_sample_of(sc))
    except HarnessError as e:
        agg["harness_error"] = str(e)
    except Exception:
        agg["harness_error"] = traceback.format_exc()
    faulthandler.cancel_dump_traceback_later()
    agg["digest"] = agg["digest"].hexdigest()
    agg["distinct"] = array.array("Q", sorted(agg["distinct"])).tobytes()   # compact for the pipe
    return agg


def _sample_of(sc):
    s = json.loads(jdump(sc))
    # keep samples readable: truncate stored file bytes
    w = s.get("world", {}).get("files")
    if isinstance(w, dict):
        for p in list(w):
            if isinstance(w[p], str) and len(w[p]) > 400:
                w[p] = w[p][:400] + "...(%d hex chars)" % len(w[p])
    txt = jdump(s)
    if len(txt) > 6000:
        return {"truncated": txt[:6000]}
    return s


def run_batch(prop, seed, tier, runs, workers, first=0):
    wl = workload(prop)
    nfixed = len(wl.fixed_scenarios(prop))
    per = max(1, min(2000, (runs + workers * 4 - 1) // (workers * 4)))
    blocks = []
    r = first
    while r < first + runs:
        blocks.append((prop, seed, r, min(first + runs, r + per), tier, None))
        r += per
    # the fixed scenarios ride along in their own blocks
    fixed_blocks = []
    if nfixed:
        step = max(1, (nfixed + workers - 1) // workers)
        for i in range(0, nfixed, step):
            fixed_blocks.append((prop, seed, 0, 0, tier, list(range(i, min(nfixed, i + step)))))
    allb = fixed_blocks + blocks
    results = []
    if workers <= 1:
        for b in allb:
            results.append(run_block(b))
    else:
        ctx = multiprocessing.get_context("fork")
        try:
            with ProcessPoolExecutor(max_workers=workers, mp_context=ctx) as ex:
                results = list(ex.map(run_block, allb))
        except BrokenProcessPool:
            raise HarnessError("a worker process died (wall cap %ds per block or crash)"
                               % BLOCK_WALL_CAP_S)
    total = {"evaluations": 0, "stats": Counter(), "distinct": set(), "violations": [],
             "samples": [], "digest": hashlib.sha256(), "known": Counter(), "steps": 0, "runs": 0,
             "nontrivial_runs": 0}
    for a in results:
        if a.get("harness_error"):
            raise HarnessError(a["harness_error"])
        total["evaluations"] += a["evaluations"]
        total["stats"].update(a["stats"])
        d = array.array("Q")
        d.frombytes(a["distinct"])
        total["distinct"].update(d)
        total["violations"].extend(a["violations"])
        if len(total["samples"]) < 3:
            total["samples"].extend(a["samples"][:1])
        total["digest"].update(a["digest"].encode())
        total["known"].update(a["known"])
        total["steps"] += a["steps"]
        total["runs"] += a["runs"]
        total["nontrivial_runs"] += a["nontrivial_runs"]
    total["digest"] = total["digest"].hexdigest()
    return total


# --------------------------------------------------------------------- replay
def reproduces(sc, sig):
    res = execute(sc)
    return any(v.sig() == sig for v in unmatched(res))


def minimise_and_report(prop, run, sc, vj, budget_s):
    wl = workload(prop)
    v = Violation(vj["property"], vj["clause"], vj["detail"])
    sig = v.sig()
    if hasattr(wl, "narrow"):
        sc2 = wl.narrow(sc, v)
        if sc2 is not sc and reproduces(sc2, sig):
            sc = sc2
    small, evals = shrink(sc, lambda c: reproduces(c, sig), budget_s=budget_s)
    res = execute(small)
    vv = [x for x in unmatched(res) if x.sig() == sig]
    detail = vv[0].detail if vv else v.detail
    outdir = os.path.join(VERIF, "out", "replays")
    os.makedirs(outdir, exist_ok=True)
    path = os.path.join(outdir, "%s-s%s-r%s-%s.json" % (
        prop, sc.get("seed", 0), run, hashlib.sha1(v.clause.encode()).hexdigest()[:6]))
    with open(path, "w") as f:
        json.dump({"scenario": small, "expect": {"property": sig[0], "clause": sig[1]},
                   "detail": detail, "original_run": run, "shrink_evaluations": evals},
                  f, indent=1, sort_keys=True, default=repr)
    # confirm in a fresh process
    p = subprocess.run([sys.executable, os.path.join(VERIF, "simv_main.py"), "replay", path],
                       capture_output=True, text=True, timeout=300,
                       env=dict(os.environ, PYTHONHASHSEED="0"))
    confirmed = p.returncode == 1 and "VIOLATION property=%s" % prop in p.stdout
    return path, confirmed, detail


def block_scenarios(b):
    """The scenarios of a block replay, in execution order."""
    prop = b["property"]
    if b.get("fixed") is not None:
        fx = workload(prop).fixed_scenarios(prop)
        out = []
        for i in b["fixed"]:
            sc = fx[i]
            sc.setdefault("seed", b["seed"])
            sc.setdefault("run", -1 - i)
            out.append(sc)
        return out
    return [generate(prop, b["seed"], r, b.get("tier", "quick")) for r in range(b["first"], b["last"] + 1)]


def block_replay(prop, seed, tier, run, vj, block):
    """A violation that does not replay from its scenario alone needs history from
    earlier runs of the same process.  Find a short suffix of its block, executed in
    order in a fresh process, that reproduces it."""
    sig = (vj["property"], vj["clause"])
    outdir = os.path.join(VERIF, "out", "replays")
    os.makedirs(outdir, exist_ok=True)
    path = os.path.join(outdir, "%s-s%s-r%s-%s-history.json" % (
        prop, seed, run, hashlib.sha1(vj["clause"].encode()).hexdigest()[:6]))

    def attempt(b):
        with open(path, "w") as f:
            json.dump({"block": b, "expect": {"property": sig[0], "clause": sig[1]},
                       "detail": vj["detail"], "original_run": run,
                       "note": "the violation needs in-process history: the runs of this block "
                               "are executed in order, the last one must violate"},
                      f, indent=1, sort_keys=True, default=repr)
        p = subprocess.run([sys.executable, os.path.join(VERIF, "simv_main.py"), "replay", path],
                           capture_output=True, text=True, timeout=1200,
                           env=dict(os.environ, PYTHONHASHSEED="0"))
        return p.returncode == 1 and "VIOLATION property=%s" % prop in p.stdout

    if block.get("fixed") is not None:
        idx = block["fixed"]
        pos = idx.index(-1 - run)
        cands = [{"property": prop, "seed": seed, "tier": tier, "fixed": idx[max(0, pos - n):pos + 1]}
                 for n in (1, 2, 4, 8, 16, 64)]
    else:
        cands = []
        n = 1
        while True:
            first = max(block["first"], run - n)
            cands.append({"property": prop, "seed": seed, "tier": tier, "first": first, "last": run})
            if first == block["first"]:
                break
            n *= 2
    for b in cands:
        if attempt(b):
            return path, True
    return path, False


def cmd_replay(path):
    with open(path) as f:
        rp = json.load(f)
    sig = (rp["expect"]["property"], rp["expect"]["clause"])
    if "block" in rp:
        scs = block_scenarios(rp["block"])
        res = None
        for sc in scs:
            res = execute(sc)
        hit = [v for v in unmatched(res) if v.sig() == sig] if res is not None else []
        if hit:
            print("VIOLATION property=%s replay=%s" % (sig[0], path))
            print("  clause: %s (after %d runs of history in the same process)" % (sig[1], len(scs) - 1))
            print("  detail: %s" % json.dumps(hit[0].detail, default=repr)[:2000])
            return 1
        print("replay did not reproduce %s/%s" % sig)
        return 0
    sc = rp["scenario"]
    res = execute(sc)
    hit = [v for v in unmatched(res) if v.sig() == sig]
    others = [v for v in unmatched(res) if v.sig() != sig]
    if hit:
        print("VIOLATION property=%s replay=%s" % (sig[0], path))
        print("  clause: %s" % sig[1])
        print("  detail: %s" % json.dumps(hit[0].detail, default=repr)[:2000])
        return 1
    for v in others:
        print("note: different violation on replay: %r" % (v,))
    print("replay did not reproduce %s/%s" % sig)
    return 0


# ------------------------------------------------------------------- evidence
RULES = {
    "edit": "seeded editor sessions on one live object: edit ops through attributes and keys, inherited "
            "mapping mutators, chart-list edits, charts built by blank()/from_msd/empty constructor, "
            "identity hazards (shared / interned string objects), saves (str, StringIO, plain writer, "
            "TextIOWrapper over the simulated disk with short writes), restarts through every loader, "
            "saves that fail part-way and failing str() of other objects as history, a bystander object; "
            "judged against RefSimfile/ref_emit. distinct = (format, save kind, item/chart counts, "
            "VERSION-first, key-only present, notes keys, abstract state-shape hash) for saves, "
            "(entry, counts) for restarts, (object kind, previous op, op, key/attr, alias-presence "
            "vector, outcome) for C18 steps; non-trivial = a save/restart/step that the oracle judged "
            "inside the property's domain",
    "load": "seeded MSD texts (and corrupted corpus files) x entry points x stream behaviours (short "
            "reads, chunk sizes, buffer sizes, names of every kind, four facades) with a decoy text loaded "
            "first, against ref_load on the trusted tokenizer; C04: stored bytes damaged by corrupt-stored "
            "faults, load / (failed save) / save / restart / load / save history. distinct = (entry point, "
            "strict, outcome class, name type, item/chart counts, key-shape hash) resp. (format, facade, "
            "strict, corruption kind, counts, key-only, key-shape hash); non-trivial = judged outcome "
            "(a model comparison or an expected error)",
    "mutate": "seeded worlds x encodings x file-name configurations x edit scripts x four facades; for "
              "C06 every storage call k of the fault-free trace x {err EIO/ENOSPC/EACCES, kill, torn write}, "
              "err@k followed by err/kill at k+1/k+2, every body position x 7 exception classes, every "
              "unserialisable/unencodable spoil, invariants raised inside the disk; distinct = (facade, "
              "format, encoding, output/backup configuration, trace-shape hash, fault kind, errno, k | "
              "exit kind | spoil); non-trivial = the fault actually fired (C06) / the run reached the "
              "save inside the domain or an expected refusal/error (C05)",
    "discover": "seeded directory trees x listing-order adversary (sorted/stable/reshuffled) x four facades "
                "x loader options x path spellings, rescanned after the tree changed, objects kept alive "
                "and asked again; against ref_discover/ref_assets (plain string operations). distinct = "
                "(facade, listing mode, simfile counts, options, spelling, extension-shape hash) per "
                "directory, (kind, branch, answer class, admissible count, entries hash) per asset lookup; "
                "non-trivial = a directory / lookup / pack that was judged",
}
COMPONENTS = {
    "real": ["simfile (all of /repo/simfile, current working tree)", "msdparser 2.0.0",
             "io.TextIOWrapper/BufferedReader/BufferedWriter and codecs",
             "fs.base.FS.open / fs.iotools.make_stream / FS.isdir / FS.exists"],
    "stub": ["SimDisk (in-memory disk: bytes, listing order, faults)",
             "SimFS (PyFilesystem facade over SimDisk)",
             "NativeShim (io/os module globals of simfile._private.nativeosfs over SimDisk)",
             "simulated caller (edit scripts, with-block bodies and the exceptions they raise)"],
    "absent": ["clock, timers, threads, network: the library has none"],
}


def write_evidence(prop, tier, seed, total, wall, nviol, extra=None):
    stats = total["stats"]
    faults = {k[6:]: v for k, v in sorted(stats.items()) if k.startswith("fault:")}
    bugg = {k[8:]: v for k, v in sorted(stats.items()) if k.startswith("buggify:")}
    probes = {k[6:]: v for k, v in sorted(stats.items()) if k.startswith("probe:")}
    outside = {k[15:]: v for k, v in sorted(stats.items()) if k.startswith("outside-domain:")}
    other = {k: v for k, v in sorted(stats.items())
             if not k.startswith(("fault:", "buggify:", "probe:", "outside-domain:"))}
    runs = total["runs"]
    cov = {
        "evaluations": int(total["evaluations"]),
        "distinct_nontrivial": len(total["distinct"]),
        "rule": RULES[WORKLOADS[prop]],
        "samples": total["samples"][:3] or [{"note": "no non-trivial sample"}],
        "simulated_runs": runs,
        "nontrivial_runs": total["nontrivial_runs"],
        "runs_per_hour": int(runs / wall * 3600) if wall > 0 else 0,
        "seeds_per_hour": int(runs / wall * 3600) if wall > 0 else 0,
        "seeds_note": "one derived PRNG seed per simulated run: sha256(property|VERIF_SEED|run)",
        "simulated_time": "n/a - no clock or timer in the system under test; logical steps "
                          "(edit ops + storage events): %d" % total["steps"],
        "fault_kinds_fired": faults,
        "buggify_sites_fired": bugg,
        "probes": probes,
        "outside_domain_skips": outside,
        "other_counters": other,
        "known_findings_seen": dict(total["known"]),
        "components": COMPONENTS,
        "event_log_digest": total["digest"],
        "exhaustive": False,
    }
    zero = [k for k, v in probes.items() if v == 0]
    if zero:
        cov["probes_at_zero"] = zero
    if extra:
        cov.update(extra)
    ev = {
        "property_id": prop, "tier": tier, "seed": int(seed),
        "level": LEVEL.get(prop, "exploration"),
        "coverage": cov,
        "assumptions": [
            "msdparser's tokenizer, Python's io stack and codecs, and PyFilesystem's text layer "
            "run for real and are trusted, not judged",
            "durability model is process kill (a completed raw write survives); power loss is "
            "not modelled because the library never fsyncs and the property does not claim it",
            "sampling, not proof: a clean batch is evidence only",
        ],
        "wall_s": round(wall, 3),
        "violations": int(nviol),
    }
    # evidence describes /repo: a run pointed at a scratch copy (mutants, seeded changes,
    # refactorings: SIMFILE_REPO) or asked for with VERIF_EVIDENCE_DIR writes elsewhere
    evdir = os.environ.get("VERIF_EVIDENCE_DIR") or (
        os.path.join(VERIF, "evidence") if os.path.realpath(REPO) == "/repo"
        else os.path.join(VERIF, "out", "evidence-scratch"))
    os.makedirs(evdir, exist_ok=True)
    with open(os.path.join(evdir, prop + ".json"), "w") as f:
        json.dump(ev, f, indent=1, sort_keys=True, default=repr)


# ---------------------------------------------------------------------- check
def cmd_check(prop, tier, runs, workers, first):
    seed = int(os.environ.get("VERIF_SEED", "0") or 0)
    if runs is None:
        runs = RUNS[prop][0 if tier == "quick" else 1]
    t0 = time.time()
    print("simcheck: property=%s tier=%s VERIF_SEED=%d runs=%d workers=%d" %
          (prop, tier, seed, runs, workers))
    sys.stdout.flush()
    total = run_batch(prop, seed, tier, runs, workers, first)
    # known findings (listed in known_findings.json, still failing)
    for kid, n in sorted(total["known"].items()):
        e = [x for x in known_findings() if x["id"] == kid][0]
        print("KNOWN-FINDING: property=%s %s [%s, seen %d times]" % (prop, e["text"], kid, n))
    viols = total["violations"]
    reported = 0
    if viols:
        by_sig = {}
        for run, sc, vj, block in sorted(viols, key=lambda x: x[0]):
            by_sig.setdefault((vj["property"], vj["clause"]), (run, sc, vj, block))
        budget = 40.0 if tier == "quick" else 120.0
        for sig, (run, sc, vj, block) in list(by_sig.items())[:3]:
            try:
                path, confirmed, detail = minimise_and_report(prop, run, sc, vj,
                                                              budget / min(3, len(by_sig)))
                if not confirmed:
                    # not reproducible from the scenario alone: it needs the history of the
                    # earlier runs in its process -> replay a suffix of its block
                    path, confirmed = block_replay(prop, seed, tier, run, vj, block)
                    detail = vj["detail"]
            except subprocess.TimeoutExpired:
                raise HarnessError("replay confirmation timed out")
            if not confirmed:
                # a violation that replays neither alone nor with its block's history in a
                # fresh process is a harness defect (nondeterminism)
                raise HarnessError("violation %s/%s (run %s) did not reproduce from its replay "
                                   "file %s" % (sig[0], sig[1], run, path))
            print("VIOLATION property=%s replay=%s" % (prop, path))
            print("  clause: %s (first seen in run %s; %d violating runs in this batch)" %
                  (sig[1], run, len(viols)))
            print("  detail: %s" % json.dumps(detail, default=repr)[:1500])
            reported += 1
    wall = time.time() - t0
    write_evidence(prop, tier, seed, total, wall, len(viols))
    print("simcheck: %s %s: runs=%d evaluations=%d distinct_nontrivial=%d wall=%.1fs violations=%d"
          % (prop, tier, total["runs"], total["evaluations"], len(total["distinct"]), wall,
             len(viols)))
    zero = [k for k, v in total["stats"].items() if k.startswith("probe:") and v == 0]
    return 1 if reported else 0


def _digest_block(args):
    prop, seed, start, stop = args
    sys.unraisablehook = lambda u: None
    out = []
    for run in range(start, stop):
        sc = generate(prop, seed, run, "quick")
        res = execute(sc)
        h = hashlib.sha256(jdump(sc).encode())
        h.update(res.digest.digest())
        h.update(repr(sorted(res.stats.items())).encode())
        h.update(repr([v.sig() for v in res.violations]).encode())
        out.append(h.hexdigest())
    return out


def run_batch_digest_only(prop, seed, runs, workers):
    per = max(1, (runs + workers - 1) // workers)
    blocks = [(prop, seed, r, min(runs, r + per)) for r in range(0, runs, per)]
    ctx = multiprocessing.get_context("fork")
    with ProcessPoolExecutor(max_workers=workers, mp_context=ctx) as ex:
        parts = list(ex.map(_digest_block, blocks))
    h = hashlib.sha256()
    for part in parts:
        for d in part:
            h.update(d.encode())
    return h.hexdigest()


def main(argv=None):
    ap = argparse.ArgumentParser(prog="simcheck")
    sub = ap.add_subparsers(dest="cmd", required=True)
    c = sub.add_parser("check")
    c.add_argument("prop")
    c.add_argument("--tier", default=os.environ.get("VERIF_TIER") or "quick",
                   choices=["quick", "thorough"])
    c.add_argument("--runs", type=int)
    c.add_argument("--first", type=int, default=0)
    c.add_argument("--workers", type=int, default=min(16, os.cpu_count() or 1))
    r = sub.add_parser("replay")
    r.add_argument("path")
    g = sub.add_parser("gen")
    g.add_argument("prop")
    g.add_argument("run", type=int)
    e = sub.add_parser("exec")
    e.add_argument("path")
    d = sub.add_parser("digest")
    d.add_argument("prop")
    d.add_argument("--runs", type=int, default=500)
    d.add_argument("--workers", type=int, default=8)
    s = sub.add_parser("selftest")
    s.add_argument("what", choices=["determinism"])
    s.add_argument("--props", default="C01,C02,C03,C04,C05,C06,C18,C19,C20")
    s.add_argument("--runs", type=int, default=2000)
    s.add_argument("--workers", type=int, default=16)
    a = ap.parse_args(argv)
    try:
        if a.cmd == "check":
            return cmd_check(a.prop, a.tier, a.runs, a.workers, a.first)
        if a.cmd == "replay":
            return cmd_replay(a.path)
        if a.cmd == "gen":
            seed = int(os.environ.get("VERIF_SEED", "0") or 0)
            print(json.dumps(generate(a.prop, seed, a.run, "quick"), indent=1, sort_keys=True))
            return 0
        if a.cmd == "exec":
            with open(a.path) as f:
                sc = json.load(f)
            sc = sc.get("scenario", sc)
            res = execute(sc)
            for v in res.violations:
                print(("KNOWN " if kf_match(v) else "VIOL  ") + repr(v))
            print(dict(res.stats))
            return 0
        if a.cmd == "digest":
            print(run_batch_digest_only(a.prop, 7, a.runs, a.workers))
            return 0
        if a.cmd == "selftest":
            props = [p for p in a.props.split(",") if p]
            ok = True
            for prop in props:
                x = run_batch_digest_only(prop, 7, a.runs, a.workers)
                y = run_batch_digest_only(prop, 7, a.runs, 3)
                env = dict(os.environ, PYTHONHASHSEED="12345", SIMV_KEEP_HASHSEED="1")
                p = subprocess.run([sys.executable, os.path.join(VERIF, "simv_main.py"), "digest",
                                    prop, "--runs", str(a.runs), "--workers", "5"],
                                   capture_output=True, text=True, env=env, timeout=3000)
                z = p.stdout.strip().splitlines()[-1] if p.stdout.strip() else "?" + p.stderr[-300:]
                same = x == y == z
                print("determinism %s runs=%d: %s (%s %s %s)" %
                      (prop, a.runs, "OK" if same else "MISMATCH", x[:12], y[:12], z[:12]))
                ok = ok and same
            return 0 if ok else 2
    except HarnessError as e:
        print("HARNESS-ERROR: %s" % (e,))
        return 2
    return 0
