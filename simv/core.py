"""Shared types: violations, run results, the generic scenario shrinker."""
import copy
import hashlib
import json
import time
from collections import Counter


class HarnessError(Exception):
    """Something is wrong with the harness itself (never a VIOLATION)."""


class LibraryMisbehaved(Exception):
    """The library returned something the harness cannot even process (e.g. None
    where a path is promised).  Converted into a violation by the driver."""

    def __init__(self, clause, **detail):
        super().__init__(clause)
        self.clause = clause
        self.detail = detail


class Violation:
    def __init__(self, prop, clause, detail=None):
        self.prop = prop
        self.clause = clause
        self.detail = detail or {}

    def sig(self):
        return (self.prop, self.clause)

    def to_json(self):
        return {"property": self.prop, "clause": self.clause, "detail": self.detail}

    def __repr__(self):
        return "Violation(%s, %s, %s)" % (self.prop, self.clause,
                                          json.dumps(self.detail, default=repr)[:400])


class RunResult:
    def __init__(self):
        self.violations = []          # [Violation]
        self.stats = Counter()        # faults fired, probes, outcome classes ...
        self.distinct = set()         # hashes of distinct non-trivial cases
        self.evaluations = 0          # executions (sub-runs) performed
        self.digest = hashlib.sha256()  # event log + verdict digest (determinism test)
        self.known = []               # [(kf_class, text)] known findings seen
        self.steps = 0                # logical steps (ops + storage events)

    def violate(self, prop, clause, **detail):
        self.violations.append(Violation(prop, clause, detail))
        self.digest.update(("V|%s|%s" % (prop, clause)).encode())

    def note(self, *parts):
        """Count a distinct non-trivial case."""
        h = hashlib.blake2b(repr(parts).encode("utf-8", "surrogatepass"), digest_size=8).digest()
        self.distinct.add(int.from_bytes(h, "big"))

    def log(self, *parts):
        self.digest.update(repr(parts).encode("utf-8", "surrogatepass"))


def shash(obj):
    """A hash that does not depend on PYTHONHASHSEED."""
    return int.from_bytes(hashlib.blake2b(repr(obj).encode("utf-8", "surrogatepass"),
                                          digest_size=6).digest(), "big")


def jdump(obj):
    return json.dumps(obj, ensure_ascii=True, sort_keys=True)


# ------------------------------------------------------------------ shrinking
PROTECTED_KEYS = {"op", "kind", "attr", "facade", "fmt", "from", "exc", "errno", "entry", "how",
                  "property", "workload", "as", "listing", "t", "share", "exit", "obj", "stream",
                  "name_kind", "enc", "encoding", "class", "what", "asset", "mode", "via",
                  "try_encodings", "corrupt", "newline"}
PROTECTED_SUBTREES = {"expect", "only"}


def _paths(node, path=()):
    """Yield (path, node) for every node, depth first."""
    yield path, node
    if isinstance(node, dict):
        for k in sorted(node):
            if k in PROTECTED_SUBTREES:
                continue
            yield from _paths(node[k], path + (k,))
    elif isinstance(node, list):
        for i, v in enumerate(node):
            yield from _paths(v, path + (i,))


def _get(root, path):
    for p in path:
        root = root[p]
    return root


def _set(root, path, value):
    root = copy.deepcopy(root)
    node = root
    for p in path[:-1]:
        node = node[p]
    node[path[-1]] = value
    return root


def _delete_key(root, path):
    root = copy.deepcopy(root)
    node = root
    for p in path[:-1]:
        node = node[p]
    del node[path[-1]]
    return root


def shrink(scenario, still_fails, budget_s=45.0, max_evals=4000):
    """Greedy delta-debugging over the JSON scenario.  ``still_fails(sc)`` must
    return True when sc still produces the same violation signature."""
    t0 = time.time()
    evals = [0]
    best = scenario

    def ok(cand):
        if time.time() - t0 > budget_s or evals[0] >= max_evals:
            return False
        evals[0] += 1
        try:
            return bool(still_fails(cand))
        except HarnessError:
            return False
        except Exception:
            return False

    improved = True
    while improved and time.time() - t0 <= budget_s and evals[0] < max_evals:
        improved = False
        # 1. lists: remove chunks (ddmin style), largest lists first
        lists = [(p, n) for p, n in _paths(best) if isinstance(n, list) and n
                 and (not p or p[-1] not in PROTECTED_KEYS)]
        lists.sort(key=lambda pn: -len(pn[1]))
        for path, _ in lists:
            try:
                cur = _get(best, path)
            except (KeyError, IndexError, TypeError):
                continue
            if not isinstance(cur, list):
                continue
            chunk = max(1, len(cur) // 2)
            while cur:
                i = 0
                while i < len(cur):
                    cand_list = cur[:i] + cur[i + chunk:]
                    cand = _set(best, path, cand_list) if path else cand_list
                    if ok(cand):
                        best = cand
                        cur = cand_list
                        improved = True
                    else:
                        i += chunk
                if chunk == 1:
                    break
                chunk //= 2
        # 2. dict entries under "files" (world) and optional keys: try removing
        for path, node in list(_paths(best)):
            if path and path[-1] == "files" and isinstance(node, dict):
                for k in sorted(node):
                    try:
                        cand = _delete_key(best, path + (k,))
                    except (KeyError, IndexError, TypeError):
                        continue
                    if ok(cand):
                        best = cand
                        improved = True
        # 3. scalars
        for path, node in list(_paths(best)):
            if not path:
                continue
            last = path[-1]
            if isinstance(last, str) and last in PROTECTED_KEYS:
                continue
            if any(isinstance(p, str) and p in PROTECTED_KEYS for p in path):
                continue
            try:
                cur = _get(best, path)
            except (KeyError, IndexError, TypeError):
                continue
            if isinstance(cur, bool) or cur is None:
                continue
            if isinstance(cur, str) and cur:
                is_hex = isinstance(last, str) and len(path) >= 2 and path[-2] == "files"
                cands = []
                step = 2 if is_hex else 1
                n = len(cur)
                if not is_hex:
                    cands.append("")
                half = (n // 2) // step * step
                if half and half < n:
                    cands += [cur[:half], cur[half:]]
                if n <= 64 * step:
                    for i in range(0, n, step):
                        cands.append(cur[:i] + cur[i + step:])
                else:
                    q = max(step, (n // 8) // step * step)
                    for i in range(0, n, q):
                        cands.append(cur[:i] + cur[i + q:])
                if not is_hex and n <= 32:
                    for i, ch in enumerate(cur):
                        if ch not in "A0":
                            cands.append(cur[:i] + ("0" if ch.isdigit() else "A") + cur[i + 1:])
                for c in cands:
                    if c == cur:
                        continue
                    cand = _set(best, path, c)
                    if ok(cand):
                        best = cand
                        cur = c
                        improved = True
                        break
            elif isinstance(cur, int) and cur > 0:
                for c in (0, cur // 2, cur - 1):
                    if c == cur or c < 0:
                        continue
                    cand = _set(best, path, c)
                    if ok(cand):
                        best = cand
                        improved = True
                        break
    return best, evals[0]
