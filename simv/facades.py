"""The two façades through which the library reaches the simulated disk.

* ``SimFS``  – a PyFilesystem ``FS`` subclass that only implements the abstract
  raw methods; the real ``FS.open`` / ``iotools.make_stream`` / ``FS.isdir`` /
  ``FS.exists`` run on top of it.  Passed as ``filesystem=``.
* ``NativeShim`` – replaces the module globals ``io`` and ``os`` of
  ``simfile._private.nativeosfs`` so that the *default* ``NativeOSFS()`` (the
  very instance bound as default argument everywhere in the library) talks to
  the simulated disk with ``os.path`` / builtin ``open`` semantics.
"""
import errno
import io
import os as _real_os
import posixpath
import stat as _stat
import types

import fs.errors
from fs.base import FS
from fs.info import Info
from fs.path import abspath, normpath

from . import simdisk
from .simdisk import InjectedOSError, SimDisk, norm, LISTDIR, STAT


def _fs_error(e, path):
    """Map an OSError from the disk to the fs.errors exception a PyFilesystem raises."""
    if isinstance(e, InjectedOSError):
        if e.errno == errno.ENOSPC:
            return fs.errors.InsufficientStorage(path=path, exc=e)
        if e.errno == errno.EACCES:
            return fs.errors.PermissionDenied(path=path, exc=e)
        return fs.errors.OperationFailed(path=path, exc=e)
    if isinstance(e, FileNotFoundError):
        return fs.errors.ResourceNotFound(path)
    if isinstance(e, IsADirectoryError):
        return fs.errors.FileExpected(path)
    if isinstance(e, NotADirectoryError):
        return fs.errors.DirectoryExpected(path)
    return fs.errors.OperationFailed(path=path, exc=e)


class SimFS(FS):
    def __init__(self, disk):
        super().__init__()
        self.disk = disk

    def _p(self, path):
        return norm(abspath(normpath(self.validatepath(path))))

    def getinfo(self, path, namespaces=None):
        p = self._p(path)
        d = self.disk
        try:
            d.call(STAT, p)
        except OSError as e:
            raise _fs_error(e, path)
        if p in d.dirs:
            is_dir = True
        elif p in d.files:
            is_dir = False
        else:
            raise fs.errors.ResourceNotFound(path)
        raw = {"basic": {"name": posixpath.basename(p), "is_dir": is_dir}}
        if namespaces and "details" in namespaces:
            raw["details"] = {"size": 0 if is_dir else len(d.files[p]),
                              "type": 1 if is_dir else 2, "modified": 0, "created": 0,
                              "accessed": 0, "metadata_changed": 0}
        return Info(raw)

    def listdir(self, path):
        p = self._p(path)
        d = self.disk
        try:
            d.call(LISTDIR, p)
        except OSError as e:
            raise _fs_error(e, path)
        if p in d.files:
            raise fs.errors.DirectoryExpected(path)
        if p not in d.dirs:
            raise fs.errors.ResourceNotFound(path)
        return d.listdir(p)

    def openbin(self, path, mode="r", buffering=-1, **options):
        p = self._p(path)
        m = "w" if ("w" in mode or "a" in mode or "x" in mode or "+" in mode) else "r"
        try:
            raw = self.disk.open_raw(p, m, name=path)
        except OSError as e:
            raise _fs_error(e, path)
        # As OSFS.openbin does (io.open in binary mode), hand out a *buffered*
        # binary file: PyFilesystem's make_stream puts a TextIOWrapper directly on
        # top of what openbin returns when buffering is -1, and a TextIOWrapper
        # does not retry partial raw writes.
        size = buffering if buffering and buffering > 0 else io.DEFAULT_BUFFER_SIZE
        if m == "r" and getattr(self.disk, "raw_readers", False):
            # buggify: a PyFilesystem whose binary read streams are raw (network-style):
            # read(n) may return fewer bytes than asked for before end of file.  Text mode
            # copes (TextIOWrapper reads with read1 semantics); only readers are raw.
            self.disk.buggify["raw_reader"] = self.disk.buggify.get("raw_reader", 0) + 1
            return raw
        buf = io.BufferedWriter(raw, size) if m == "w" else io.BufferedReader(raw, size)
        return buf

    def makedir(self, path, permissions=None, recreate=False):
        p = self._p(path)
        if p in self.disk.dirs:
            if not recreate and p != "/":
                raise fs.errors.DirectoryExists(path)
            return self.opendir(path)
        if p in self.disk.files:
            raise fs.errors.DirectoryExists(path)
        if posixpath.dirname(p) not in self.disk.dirs:
            raise fs.errors.ResourceNotFound(path)
        try:
            self.disk.mkdir(p)
        except OSError as e:
            raise _fs_error(e, path)
        return self.opendir(path)

    def remove(self, path):
        try:
            self.disk.remove(self._p(path))
        except OSError as e:
            raise _fs_error(e, path)

    def move(self, src_path, dst_path, overwrite=False, preserve_time=False):
        p, q = self._p(src_path), self._p(dst_path)
        if not overwrite and q in self.disk.files:
            raise fs.errors.DestinationExists(dst_path)
        try:
            self.disk.rename(p, q)
        except OSError as e:
            raise _fs_error(e, src_path)

    def removedir(self, path):
        p = self._p(path)
        if p == "/":
            raise fs.errors.RemoveRootError(path)
        if p in self.disk.dirs and self.disk.children(p):
            raise fs.errors.DirectoryNotEmpty(path)
        try:
            self.disk.rmdir(p)
        except OSError as e:
            raise _fs_error(e, path)

    def setinfo(self, path, info):
        raise NotImplementedError


class _StatResult:
    def __init__(self, mode, size=0):
        self.st_mode = mode
        self.st_size = size
        self.st_mtime = self.st_atime = self.st_ctime = 0
        self.st_mtime_ns = self.st_atime_ns = self.st_ctime_ns = 0
        self.st_uid = self.st_gid = 0
        self.st_ino = self.st_dev = 0
        self.st_nlink = 1


# Every path the native facade hands to the library lives under this prefix, so that a
# call can be routed by its path alone: under the prefix -> simulated disk, anything
# else -> the real function (the harness's own files, the interpreter's imports).
SIM_ROOT = "/simv-root-7f3a"


# The simulated working directory (a simulated-disk path) while a run hands the library
# genuinely relative names; None otherwise.  A relative name is then resolved against it,
# as the OS resolves one against the process's working directory (the empty name stays
# with the real functions, which reject it the way the OS does).
_SIM_CWD = None


def _sim_path(path):
    """The simulated-disk path for a path under SIM_ROOT, else None."""
    try:
        p = _real_os.fspath(path)
    except TypeError:
        return None
    if isinstance(p, bytes):
        p = p.decode("utf-8", "surrogateescape")
    if _SIM_CWD is not None and p and not p.startswith("/"):
        return _SIM_CWD.rstrip("/") + "/" + p
    if p == SIM_ROOT:
        return "/"
    if p.startswith(SIM_ROOT + "/"):
        return p[len(SIM_ROOT):]
    return None


_REAL = {
    "listdir": _real_os.listdir, "scandir": _real_os.scandir, "stat": _real_os.stat, "lstat": _real_os.lstat,
    "mkdir": _real_os.mkdir, "rmdir": _real_os.rmdir, "chmod": _real_os.chmod, "utime": _real_os.utime,
    "chown": _real_os.chown, "access": _real_os.access, "listxattr": _real_os.listxattr,
    "remove": _real_os.remove, "unlink": _real_os.unlink, "rename": _real_os.rename,
    "replace": _real_os.replace, "readlink": _real_os.readlink, "io_open": io.open,
    "exists": posixpath.exists, "lexists": posixpath.lexists, "isfile": posixpath.isfile,
    "isdir": posixpath.isdir, "getsize": posixpath.getsize,
}


class _ShimPath:
    """posixpath with the functions that touch the filesystem routed by path."""

    def __init__(self, disk):
        self._disk = disk

    def exists(self, path):
        sp = _sim_path(path)
        if sp is None:
            return _REAL["exists"](path)
        p = self._disk.norm(sp)
        return p in self._disk.files or p in self._disk.dirs

    def lexists(self, path):
        return self.exists(path)

    def isfile(self, path):
        sp = _sim_path(path)
        if sp is None:
            return _REAL["isfile"](path)
        return self._disk.norm(sp) in self._disk.files

    def isdir(self, path):
        sp = _sim_path(path)
        if sp is None:
            return _REAL["isdir"](path)
        return self._disk.norm(sp) in self._disk.dirs

    def getsize(self, path):
        sp = _sim_path(path)
        if sp is None:
            return _REAL["getsize"](path)
        return len(self._disk.files[self._disk.norm(sp)])

    def __getattr__(self, name):
        return getattr(posixpath, name)


class _DirEntry:
    """What os.scandir yields, over the simulated disk (type known from the scan itself,
    as with a real DirEntry: is_dir()/is_file() make no further storage call)."""

    def __init__(self, shim, base, name):
        self.name = name
        self.path = posixpath.join(base, name)
        d = shim._disk
        full = (_sim_path(base) or "/").rstrip("/") + "/" + name
        self._link = bool(d.symlinks) and d.norm(full, follow_last=False) in d.symlinks
        p = d.norm(full)
        self._dir, self._file = p in d.dirs, p in d.files
        self._shim = shim

    def is_dir(self, *, follow_symlinks=True):
        return self._dir and (follow_symlinks or not self._link)

    def is_file(self, *, follow_symlinks=True):
        return self._file and (follow_symlinks or not self._link)

    def is_symlink(self):
        return self._link

    def stat(self, *, follow_symlinks=True):
        return self._shim.stat(self.path) if follow_symlinks else self._shim.lstat(self.path)

    def inode(self):
        return 0

    def __fspath__(self):
        return self.path

    def __repr__(self):
        return "<DirEntry %r>" % (self.name,)


class _ScanDir:
    def __init__(self, entries):
        self._it = iter(entries)

    def __iter__(self):
        return self

    def __next__(self):
        return next(self._it)

    def close(self):
        self._it = iter(())

    def __enter__(self):
        return self

    def __exit__(self, *exc):
        self.close()
        return False


class _ShimOS:
    """Stands in for the ``os`` module: file functions routed by path to the disk."""

    def __init__(self, disk):
        self._disk = disk
        self.path = _ShimPath(disk)

    def __getattr__(self, name):
        return getattr(_real_os, name)

    def getcwd(self):
        return SIM_ROOT + (_SIM_CWD or "/").rstrip("/") if _SIM_CWD is not None else _real_os.getcwd()

    def listdir(self, path="."):
        sp = _sim_path(path)
        if sp is None:
            return _REAL["listdir"](path)
        d = self._disk
        p = d.norm(sp)
        d.call(LISTDIR, p)
        if p in d.files:
            raise NotADirectoryError(errno.ENOTDIR, "Not a directory", path)
        if p not in d.dirs:
            raise FileNotFoundError(errno.ENOENT, "No such file or directory", path)
        return d.listdir(p)

    def scandir(self, path="."):
        sp = _sim_path(path)
        if sp is None:
            return _REAL["scandir"](path)
        names = self.listdir(path)          # one LISTDIR call; the simulator owns the order
        base = _real_os.fspath(path)
        if isinstance(base, bytes):
            base = base.decode("utf-8", "surrogateescape")
        return _ScanDir([_DirEntry(self, base, n) for n in names])

    def stat(self, path, *a, **kw):
        sp = _sim_path(path)
        if sp is None:
            return _REAL["stat"](path, *a, **kw)
        d = self._disk
        p = d.norm(sp)
        d.call(STAT, p)
        if p in d.dirs:
            return _StatResult(_stat.S_IFDIR | 0o755)
        if p in d.files:
            return _StatResult(_stat.S_IFREG | 0o644, len(d.files[p]))
        raise FileNotFoundError(errno.ENOENT, "No such file or directory", path)

    def lstat(self, path, *a, **kw):
        sp = _sim_path(path)
        if sp is None:
            return _REAL["lstat"](path, *a, **kw)
        if self._disk.symlinks and self._disk.norm(sp, follow_last=False) in self._disk.symlinks:
            self._disk.call(STAT, self._disk.norm(sp, follow_last=False))
            return _StatResult(_stat.S_IFLNK | 0o777)
        return self.stat(path)

    def readlink(self, path, *a, **kw):
        sp = _sim_path(path)
        if sp is None:
            return _REAL["readlink"](path, *a, **kw)
        p = self._disk.norm(sp, follow_last=False)
        if p in self._disk.symlinks:
            return SIM_ROOT + self._disk.symlinks[p]
        raise OSError(errno.EINVAL, "Invalid argument", path)

    def remove(self, path, *a, **kw):
        sp = _sim_path(path)
        if sp is None:
            return _REAL["remove"](path, *a, **kw)
        self._disk.remove(sp)

    def unlink(self, path, *a, **kw):
        return self.remove(path, *a, **kw)

    def _exists_or_raise(self, path):
        sp = _sim_path(path)
        p = self._disk.norm(sp)
        self._disk.call(STAT, p)
        if p not in self._disk.files and p not in self._disk.dirs:
            raise FileNotFoundError(errno.ENOENT, "No such file or directory", path)

    def chmod(self, path, mode, *a, **kw):
        if isinstance(path, int) or _sim_path(path) is None:
            return _REAL["chmod"](path, mode, *a, **kw)
        self._exists_or_raise(path)         # permissions are not modelled

    def utime(self, path, *a, **kw):
        if isinstance(path, int) or _sim_path(path) is None:
            return _REAL["utime"](path, *a, **kw)
        self._exists_or_raise(path)         # timestamps are not modelled

    def chown(self, path, *a, **kw):
        if isinstance(path, int) or _sim_path(path) is None:
            return _REAL["chown"](path, *a, **kw)
        self._exists_or_raise(path)

    def listxattr(self, path=None, *a, **kw):
        if path is None or isinstance(path, int) or _sim_path(path) is None:
            return _REAL["listxattr"](path, *a, **kw)
        return []

    def access(self, path, mode, *a, **kw):
        sp = _sim_path(path)
        if sp is None:
            return _REAL["access"](path, mode, *a, **kw)
        p = self._disk.norm(sp)
        return p in self._disk.files or p in self._disk.dirs

    def mkdir(self, path, mode=0o777, *a, **kw):
        sp = _sim_path(path)
        if sp is None:
            return _REAL["mkdir"](path, mode, *a, **kw)
        self._disk.mkdir(sp)

    def rmdir(self, path, *a, **kw):
        sp = _sim_path(path)
        if sp is None:
            return _REAL["rmdir"](path, *a, **kw)
        self._disk.rmdir(sp)

    def makedirs(self, name, mode=0o777, exist_ok=False):
        # the real os.makedirs, which finds the routed mkdir / path.exists in the os module
        return _real_os.makedirs(name, mode, exist_ok)

    def rename(self, src, dst, *a, **kw):
        s1, s2 = _sim_path(src), _sim_path(dst)
        if s1 is None and s2 is None:
            return _REAL["rename"](src, dst, *a, **kw)
        if s1 is None or s2 is None:
            raise OSError(errno.EXDEV, "Invalid cross-device link", src)
        self._disk.rename(s1, s2)

    def replace(self, src, dst, *a, **kw):
        return self.rename(src, dst)


class _ShimIO:
    """Stands in for the ``io`` module.  ``open`` reproduces what builtin open() builds:
    raw -> Buffered -> TextIOWrapper with universal-newline default."""

    def __init__(self, disk):
        self._disk = disk

    def open(self, file, mode="r", buffering=-1, encoding=None, errors=None,
             newline=None, closefd=True, opener=None):
        sp = _sim_path(file) if not isinstance(file, int) else None
        if sp is None:
            return _REAL["io_open"](file, mode, buffering, encoding, errors, newline, closefd, opener)
        text = "b" not in mode
        writing = any(c in mode for c in "wax+")
        name = _real_os.fspath(file)
        raw = self._disk.open_raw(sp, "w" if writing else "r", name=name)
        line_buffering = False
        if buffering == 1 and text:
            buffering = -1
            line_buffering = True
        if buffering < 0:
            buffering = io.DEFAULT_BUFFER_SIZE
        if buffering == 0:
            if text:
                raise ValueError("can't have unbuffered text I/O")
            return raw
        buf = io.BufferedWriter(raw, buffering) if writing else io.BufferedReader(raw, buffering)
        if not text:
            return buf
        if encoding is None:
            encoding = "utf-8"
        t = io.TextIOWrapper(buf, encoding, errors, newline, line_buffering)
        t.mode = mode
        return t

    def __getattr__(self, name):
        return getattr(io, name)


class NativeShim:
    """Context manager that makes the native path of the library talk to the simulated
    disk.  Two layers:

    * every global ``os`` / ``io`` of the simfile package (first of all those of
      simfile._private.nativeosfs, through which the default NativeOSFS works) is replaced
      by a shim object;
    * the file functions of the real ``os`` / ``io`` / ``builtins`` / ``posixpath`` modules
      are replaced by routers, so that a call that reaches them some other way (a local
      ``import os``, pathlib, shutil) still lands on the simulated disk when its path is
      under SIM_ROOT - and on the real function for any other path."""

    _targets = None

    def __init__(self, disk, cwd=None):
        self.disk = disk
        self.cwd = cwd

    @classmethod
    def targets(cls):
        if cls._targets is None:
            import sys
            import simfile._private.nativeosfs  # noqa: F401
            out = []
            for name, mod in sorted(sys.modules.items()):
                if mod is None or not (name == "simfile" or name.startswith("simfile.")):
                    continue
                if ".tests" in name:
                    continue
                for attr, real in (("os", _real_os), ("io", io)):
                    if getattr(mod, attr, None) is real:
                        out.append((mod, attr, real))
            cls._targets = out
        return cls._targets

    def __enter__(self):
        import builtins
        global _SIM_CWD
        _SIM_CWD = self.cwd
        shim_io, shim_os = _ShimIO(self.disk), _ShimOS(self.disk)
        for mod, attr, real in self.targets():
            setattr(mod, attr, shim_os if attr == "os" else shim_io)
        self._global = []
        for mod, name, fn in (
                (_real_os, "listdir", shim_os.listdir), (_real_os, "scandir", shim_os.scandir),
                (_real_os, "stat", shim_os.stat),
                (_real_os, "lstat", shim_os.lstat), (_real_os, "remove", shim_os.remove),
                (_real_os, "unlink", shim_os.unlink), (_real_os, "rename", shim_os.rename),
                (_real_os, "replace", shim_os.replace), (_real_os, "readlink", shim_os.readlink),
                (_real_os, "mkdir", shim_os.mkdir), (_real_os, "rmdir", shim_os.rmdir),
                (_real_os, "chmod", shim_os.chmod), (_real_os, "utime", shim_os.utime),
                (_real_os, "chown", shim_os.chown), (_real_os, "access", shim_os.access),
                (_real_os, "listxattr", shim_os.listxattr),
                (io, "open", shim_io.open),
                (builtins, "open", shim_io.open),
                (posixpath, "exists", shim_os.path.exists), (posixpath, "lexists", shim_os.path.lexists),
                (posixpath, "isfile", shim_os.path.isfile), (posixpath, "isdir", shim_os.path.isdir),
                (posixpath, "getsize", shim_os.path.getsize)) + (
                    ((_real_os, "getcwd", shim_os.getcwd),) if self.cwd is not None else ()):
            self._global.append((mod, name, getattr(mod, name)))
            setattr(mod, name, fn)
        return self

    def __exit__(self, *exc):
        global _SIM_CWD
        _SIM_CWD = None
        for mod, name, orig in reversed(self._global):
            setattr(mod, name, orig)
        for mod, attr, real in self.targets():
            setattr(mod, attr, real)
        return False


class Facade:
    """Uniform access for workloads: ``with Facade(kind, disk) as fa:`` then pass
    ``**fa.kw`` (``{"filesystem": fs}`` or ``{}`` for the native default) and hand
    the library ``fa.p(world_path)``.

    kinds: simfs | native   - stubs over a SimDisk (faults possible)
           memoryfs | realos - the real things over a RealDisk (stub-fidelity slice)"""

    def __init__(self, kind, disk, relative=False):
        """relative=True: names that do not start with '/' are handed to the library as they
        are - genuinely relative names, resolved against a working directory that is the
        root of the world (simulated on the native stub, a real chdir on the real OS slice;
        a PyFilesystem resolves them against its root anyway)."""
        if isinstance(disk, SimDisk):
            kind = {"realos": "native", "memoryfs": "simfs"}.get(kind, kind)
        self.kind = kind
        self.disk = disk
        self.relative = bool(relative)
        self._saved_cwd = None
        self.kw = {}
        self.root = ""
        self._shim = None
        self._saved_os = None

    @property
    def native_like(self):
        return self.kind in ("native", "realos")

    def __enter__(self):
        if self.kind == "simfs":
            self.fs = SimFS(self.disk)
            self.kw = {"filesystem": self.fs}
        elif self.kind == "native":
            self._shim = NativeShim(self.disk, cwd="/" if self.relative else None)
            self._shim.__enter__()
            self.root = SIM_ROOT
        elif self.kind == "realos":
            import simfile._private.nativeosfs as mod
            self._mod = mod
            self._saved_os = mod.os
            mod.os = _ListingOS(self.disk)
            self.root = self.disk.root
            if self.relative:
                self._saved_cwd = _real_os.getcwd()
                _real_os.chdir(self.root)
        elif self.kind == "memoryfs":
            self.fs = self.disk.mem
            self.kw = {"filesystem": self.fs}
        else:
            raise ValueError(self.kind)
        return self

    def __exit__(self, *exc):
        if self._shim is not None:
            self._shim.__exit__(*exc)
        if self._saved_os is not None:
            self._mod.os = self._saved_os
        if self._saved_cwd is not None:
            _real_os.chdir(self._saved_cwd)
        if self.kind in ("realos", "memoryfs"):
            self.disk.cleanup()
        return False

    def p(self, path):
        """The path to hand to the library for a world path."""
        if not path:
            return path
        if self.relative and not path.startswith("/"):
            return path
        if self.root:
            return self.root + (path if path.startswith("/") else "/" + path)
        return path

    def chdir(self, path):
        """Make a world directory the working directory of the run (native facades with
        relative=True only): the simulated one on the stub, a real chdir on the real-OS slice."""
        global _SIM_CWD
        if not self.relative:
            raise ValueError("chdir needs relative=True")
        if self.kind == "native":
            _SIM_CWD = norm(path)
        elif self.kind == "realos":
            _real_os.chdir(self.root + norm(path))
        self._cwd = norm(path)

    def unroot(self, path):
        if self.root and isinstance(path, str) and path.startswith(self.root):
            return path[len(self.root):] or "/"
        if isinstance(path, str) and not path.startswith("/") and getattr(self, "_cwd", None) \
                and self.native_like:
            return posixpath.normpath(self._cwd.rstrip("/") + "/" + path)
        return path

    def open(self, path, mode, **kw):
        """Open a world path the way the library's filesystem argument would."""
        if self.native_like:
            import simfile._private.nativeosfs as nmod
            return nmod.NativeOSFS().open(self.p(path), mode, **kw)
        return self.fs.open(path, mode, **kw)

    # path helpers in the facade's own semantics
    def join(self, *parts):
        if self.native_like:
            return posixpath.join(*parts)
        import fs.path
        return fs.path.join(*parts)

    def normpath(self, p):
        if self.native_like:
            return posixpath.normpath(p)
        import fs.path
        return fs.path.normpath(p)


# ---------------------------------------------------------------------------
# Stub-fidelity slice: the same scenarios on the real things the quantifiers
# name - the native OS filesystem (a real temporary directory through the real
# NativeOSFS with the real io/os modules) and a real in-memory PyFilesystem
# (fs.memoryfs.MemoryFS).  No faults can be injected here; listing order is
# still owned by the simulator (the real listing is sorted, then permuted with
# the run's seeded permutation), so these runs replay as well.
# ---------------------------------------------------------------------------
import random as _random
import shutil as _shutil
import tempfile as _tempfile


class RealDisk:
    """Same read-side interface as SimDisk over a real filesystem."""

    def __init__(self, world, config, kind):
        config = config or {}
        self.kind = kind
        self.events = []
        self.listings = []
        self.fired = []
        self.buggify = {}
        self.seq = 0
        self.listing_mode = config.get("listing", "sorted")
        self.listing_seed = int(config.get("listing_seed", 0))
        self.on_open_w = None
        if kind == "realos":
            base = "/dev/shm" if _real_os.path.isdir("/dev/shm") else _real_os.path.expanduser("~/scratch")
            _real_os.makedirs(base, exist_ok=True)
            self.root = _tempfile.mkdtemp(prefix="simv-", dir=base)
            for d in world.get("dirs", []):
                _real_os.makedirs(self.root + norm(d), exist_ok=True)
            for p, hx in world.get("files", {}).items():
                p = norm(p)
                _real_os.makedirs(self.root + posixpath.dirname(p), exist_ok=True)
                with open(self.root + p, "wb") as f:
                    f.write(bytes.fromhex(hx))
            for l, t in (world.get("symlinks") or {}).items():
                _real_os.makedirs(self.root + posixpath.dirname(norm(l)), exist_ok=True)
                _real_os.symlink(self.root + norm(t), self.root + norm(l))
            self.mem = None
        else:
            from fs.memoryfs import MemoryFS
            disk = self

            class RecMemoryFS(MemoryFS):
                def listdir(self, path):
                    ents = sorted(super().listdir(path))
                    return disk.permute(norm(abspath(normpath(path))), ents)

            self.root = ""
            self.mem = RecMemoryFS()
            for d in world.get("dirs", []):
                self.mem.makedirs(norm(d), recreate=True)
            for p, hx in world.get("files", {}).items():
                p = norm(p)
                self.mem.makedirs(posixpath.dirname(p), recreate=True)
                self.mem.writebytes(p, bytes.fromhex(hx))

    def permute(self, p, ents):
        self.seq += 1
        mode = self.listing_mode
        out = list(ents)
        if mode != "sorted":
            key = "%d|%s" % (self.listing_seed, p) if mode == "stable" \
                else "%d|%s|%d" % (self.listing_seed, p, self.seq)
            _random.Random(key).shuffle(out)
        self.listings.append((self.seq, p, list(out)))
        return out

    def snapshot(self):
        if getattr(self, "_final", None) is not None:
            return self._final
        files, dirs = {}, {"/"}
        if self.kind == "realos":
            for dp, dns, fns in _real_os.walk(self.root):
                rel = dp[len(self.root):] or "/"
                dirs.add(rel)
                for fn in fns:
                    with open(_real_os.path.join(dp, fn), "rb") as f:
                        files[posixpath.join(rel, fn)] = f.read()
        else:
            for dp, ds, fs_ in self.mem.walk("/"):
                dirs.add(norm(dp))
                for info in fs_:
                    p = posixpath.join(norm(dp), info.name)
                    files[p] = self.mem.readbytes(p)
        return (files, frozenset(dirs))

    def log_digest(self):
        import hashlib
        h = hashlib.sha256()
        files, dirs = self.snapshot()
        for p in sorted(files):
            h.update(p.encode("utf-8", "surrogateescape"))
            h.update(files[p])
        for ev in self.listings:
            h.update(repr(ev).encode())
        return h.hexdigest()

    def cleanup(self):
        if getattr(self, "_final", None) is not None:
            return
        final = self.snapshot()
        self._final = final
        if self.kind == "realos":
            _shutil.rmtree(self.root, ignore_errors=True)
        elif self.mem is not None:
            self.mem.close()


class _ListingOS:
    """The real os module with listdir owned by the simulator."""

    def __init__(self, disk):
        self._disk = disk

    def listdir(self, path):
        ents = sorted(_real_os.listdir(path))
        p = posixpath.normpath(_real_os.path.abspath(path))
        if p.startswith(self._disk.root):
            p = p[len(self._disk.root):] or "/"
        return self._disk.permute(norm(p), ents)

    def scandir(self, path="."):
        ents = {e.name: e for e in _real_os.scandir(path)}
        p = posixpath.normpath(_real_os.path.abspath(_real_os.fspath(path)))
        if p.startswith(self._disk.root):
            p = p[len(self._disk.root):] or "/"
        return _ScanDir([ents[n] for n in self._disk.permute(norm(p), sorted(ents))])

    def __getattr__(self, name):
        return getattr(_real_os, name)


def make_disk(world, config, faults, facade):
    if facade in ("realos", "memoryfs"):
        if faults:
            raise ValueError("faults need a simulated disk")
        try:
            return RealDisk(world, config, facade)
        except OSError:
            # no usable temporary directory in this environment (full, read-only, name
            # not representable): run the scenario on the corresponding stub instead
            return SimDisk(world, config, faults)
    return SimDisk(world, config, faults)


