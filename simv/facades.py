"""The two façades through which the library reaches the simulated disk.

* ``SimFS``  – a PyFilesystem ``FS`` subclass that only implements the abstract
  raw methods; the real ``FS.open`` / ``iotools.make_stream`` / ``FS.isdir`` /
  ``FS.exists`` run on top of it.  Passed as ``filesystem=``.
* ``NativeShim`` – replaces the module globals ``io`` and ``os`` of
  ``simfile._private.nativeosfs`` so that the *default* ``NativeOSFS()`` (the
  very instance bound as default argument everywhere in the library) talks to
  the simulated disk with ``os.path`` / builtin ``open`` semantics.
"""
import errno
import io
import os as _real_os
import posixpath
import stat as _stat
import types

import fs.errors
from fs.base import FS
from fs.info import Info
from fs.path import abspath, normpath

from . import simdisk
from .simdisk import InjectedOSError, SimDisk, norm, LISTDIR, STAT


def _fs_error(e, path):
    """Map an OSError from the disk to the fs.errors exception a PyFilesystem raises."""
    if isinstance(e, InjectedOSError):
        if e.errno == errno.ENOSPC:
            return fs.errors.InsufficientStorage(path=path, exc=e)
        if e.errno == errno.EACCES:
            return fs.errors.PermissionDenied(path=path, exc=e)
        return fs.errors.OperationFailed(path=path, exc=e)
    if isinstance(e, FileNotFoundError):
        return fs.errors.ResourceNotFound(path)
    if isinstance(e, IsADirectoryError):
        return fs.errors.FileExpected(path)
    if isinstance(e, NotADirectoryError):
        return fs.errors.DirectoryExpected(path)
    return fs.errors.OperationFailed(path=path, exc=e)


class SimFS(FS):
    def __init__(self, disk):
        super().__init__()
        self.disk = disk

    def _p(self, path):
        return norm(abspath(normpath(self.validatepath(path))))

    def getinfo(self, path, namespaces=None):
        p = self._p(path)
        d = self.disk
        try:
            d.call(STAT, p)
        except OSError as e:
            raise _fs_error(e, path)
        if p in d.dirs:
            is_dir = True
        elif p in d.files:
            is_dir = False
        else:
            raise fs.errors.ResourceNotFound(path)
        return Info({"basic": {"name": posixpath.basename(p), "is_dir": is_dir}})

    def listdir(self, path):
        p = self._p(path)
        d = self.disk
        try:
            d.call(LISTDIR, p)
        except OSError as e:
            raise _fs_error(e, path)
        if p in d.files:
            raise fs.errors.DirectoryExpected(path)
        if p not in d.dirs:
            raise fs.errors.ResourceNotFound(path)
        return d.listdir(p)

    def openbin(self, path, mode="r", buffering=-1, **options):
        p = self._p(path)
        m = "w" if ("w" in mode or "a" in mode or "x" in mode or "+" in mode) else "r"
        try:
            raw = self.disk.open_raw(p, m, name=path)
        except OSError as e:
            raise _fs_error(e, path)
        # As OSFS.openbin does (io.open in binary mode), hand out a *buffered*
        # binary file: PyFilesystem's make_stream puts a TextIOWrapper directly on
        # top of what openbin returns when buffering is -1, and a TextIOWrapper
        # does not retry partial raw writes.
        size = buffering if buffering and buffering > 0 else io.DEFAULT_BUFFER_SIZE
        buf = io.BufferedWriter(raw, size) if m == "w" else io.BufferedReader(raw, size)
        return buf

    def makedir(self, path, permissions=None, recreate=False):
        raise NotImplementedError

    def remove(self, path):
        raise NotImplementedError

    def removedir(self, path):
        raise NotImplementedError

    def setinfo(self, path, info):
        raise NotImplementedError


class _StatResult:
    def __init__(self, mode):
        self.st_mode = mode
        self.st_size = 0
        self.st_mtime = 0


class _ShimOS:
    """Stands in for the ``os`` module inside simfile._private.nativeosfs."""

    path = posixpath

    def __init__(self, disk):
        self._disk = disk

    def listdir(self, path):
        d = self._disk
        p = norm(path)
        d.call(LISTDIR, p)
        if p in d.files:
            raise NotADirectoryError(errno.ENOTDIR, "Not a directory", path)
        if p not in d.dirs:
            raise FileNotFoundError(errno.ENOENT, "No such file or directory", path)
        return d.listdir(p)

    def stat(self, path):
        d = self._disk
        p = norm(path)
        d.call(STAT, p)
        if p in d.dirs:
            return _StatResult(_stat.S_IFDIR | 0o755)
        if p in d.files:
            return _StatResult(_stat.S_IFREG | 0o644)
        raise FileNotFoundError(errno.ENOENT, "No such file or directory", path)

    lstat = stat

    def readlink(self, path):
        raise OSError(errno.EINVAL, "Invalid argument", path)


class _ShimIO:
    """Stands in for the ``io`` module inside simfile._private.nativeosfs.
    ``open`` reproduces what builtin open() builds: raw -> Buffered -> TextIOWrapper
    with universal-newline default."""

    def __init__(self, disk):
        self._disk = disk

    def open(self, file, mode="r", buffering=-1, encoding=None, errors=None,
             newline=None, closefd=True, opener=None):
        if not isinstance(file, (str, bytes)):
            raise TypeError("invalid file: %r" % (file,))
        text = "b" not in mode
        writing = any(c in mode for c in "wax+")
        raw = self._disk.open_raw(file, "w" if writing else "r", name=file)
        line_buffering = False
        if buffering == 1 and text:
            buffering = -1
            line_buffering = True
        if buffering < 0:
            buffering = io.DEFAULT_BUFFER_SIZE
        if buffering == 0:
            if text:
                raise ValueError("can't have unbuffered text I/O")
            return raw
        buf = io.BufferedWriter(raw, buffering) if writing else io.BufferedReader(raw, buffering)
        if not text:
            return buf
        if encoding is None:
            encoding = "utf-8"
        t = io.TextIOWrapper(buf, encoding, errors, newline, line_buffering)
        t.mode = mode
        return t

    def __getattr__(self, name):
        return getattr(io, name)


class NativeShim:
    """Context manager installing the shim into simfile._private.nativeosfs."""

    def __init__(self, disk):
        self.disk = disk

    def __enter__(self):
        import simfile._private.nativeosfs as mod
        self._mod = mod
        self._saved = (mod.io, mod.os)
        mod.io = _ShimIO(self.disk)
        mod.os = _ShimOS(self.disk)
        return self

    def __exit__(self, *exc):
        self._mod.io, self._mod.os = self._saved
        return False


class Facade:
    """Uniform access for workloads: ``with Facade(kind, disk) as fa:`` then pass
    ``**fa.kw`` (``{"filesystem": simfs}`` or ``{}`` for the native default)."""

    def __init__(self, kind, disk):
        self.kind = kind
        self.disk = disk
        self.kw = {}
        self._shim = None

    def __enter__(self):
        if self.kind == "simfs":
            self.fs = SimFS(self.disk)
            self.kw = {"filesystem": self.fs}
        elif self.kind == "native":
            self._shim = NativeShim(self.disk)
            self._shim.__enter__()
            self.kw = {}
        else:
            raise ValueError(self.kind)
        return self

    def __exit__(self, *exc):
        if self._shim is not None:
            self._shim.__exit__(*exc)
        return False

    # path helpers in the façade's own semantics
    def join(self, *parts):
        if self.kind == "native":
            return posixpath.join(*parts)
        import fs.path
        return fs.path.join(*parts)

    def normpath(self, p):
        if self.kind == "native":
            return posixpath.normpath(p)
        import fs.path
        return fs.path.normpath(p)
