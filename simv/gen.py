"""Seeded generators for strings, keys, charts, simfile texts and edit scripts.
Everything takes the run's ``random.Random``; nothing else is random."""
from . import models
from .models import ATTRS, MULTI, SM_FIELDS

META = ["#", ":", ";", "\\", "/", "//", "\n", "\r\n", " ", "\t", "=", ","]
PLAIN = list("abcXYZ019 .-_=,")
UNI = ["\u00e9", "\u00df", "\u3042", "\u6f22", "\ud55c", "\ufeff", "\x00", "\u3000", "\xa0", "\u20ac",
       "\u00ff", "\u00b5", "\U0001d11e", "\u2028", "\x85", "\x1c",
       # text that is not in a Unicode normal form (a loader or serializer that normalises shows)
       "e\u0301", "\u0301", "\u212b", "\u2126", "\ufb01", "\u1100\u1161", "\uff21", "\u0390"]
KNOWN_SM = [a.upper() for a in ATTRS["sm"]] + ["FREEZES", "ANIMATIONS"]
KNOWN_SSC = [a.upper() for a in ATTRS["ssc"]] + ["ANIMATIONS"]
KNOWN_SSC_CHART = [a.upper() for a in ATTRS["sscchart"] if a != "notes"]

_REPERTOIRES = {}


def repertoire(enc):
    """Characters encodable in a code page that are safe as simfile text for the
    mutate workload (no MSD metacharacters, no controls), sorted."""
    if enc in _REPERTOIRES:
        return _REPERTOIRES[enc]
    chars = set()
    if enc in ("utf-8", "utf-16"):
        chars = set("aZ0 \u00e9\u6f22\ud55c\u3042\u20ac\u00df\u00ff\u00b5\U0001d11e\u0192")
    else:
        for b in range(256):
            try:
                chars.add(bytes([b]).decode(enc))
            except UnicodeDecodeError:
                pass
        for b1 in range(0x81, 0x100):
            for b2 in range(0x40, 0x100):
                try:
                    s = bytes([b1, b2]).decode(enc)
                except UnicodeDecodeError:
                    continue
                if len(s) == 1:
                    chars.add(s)
    out = sorted(c for c in chars if len(c) == 1 and c.isprintable()
                 and c not in "#:;\\/" and c.encode(enc, "ignore").decode(enc, "ignore") == c)
    _REPERTOIRES[enc] = out
    return out


def encodable(s, enc):
    try:
        s.encode(enc)
        return True
    except UnicodeEncodeError:
        return False


def codec_roundtrips(s, enc):
    """In the code page's repertoire in the sense the mutate property needs:
    encodes, and the codec decodes the bytes back to the same text (cp932 maps
    e.g. U+00A2 to a byte pair that decodes to U+FFE0 - the codec is the
    trusted base, such characters are outside the domain)."""
    try:
        return s.encode(enc).decode(enc) == s
    except (UnicodeEncodeError, UnicodeDecodeError):
        return False


def wchoice(rng, pairs):
    """pairs: [(item, weight)...]"""
    total = sum(w for _, w in pairs)
    x = rng.random() * total
    for item, w in pairs:
        x -= w
        if x < 0:
            return item
    return pairs[-1][0]


# values that look like numbers, booleans or nulls in some notation (a serializer or loader
# that re-formats, parses or treats them as falsy shows on these)
VALUE_LIKE = ["0", "1", "-1", "+1", "01", "1.0", "1.", "0.5", ".5", "-.5", "1e3", "1E-3", "0x10", "NaN", "nan",
              "inf", "-inf", "-0", "-0.000", "0.000000", "1,000", "1_000", "1 000", "\u0663", "\uff11\uff12",
              "YES", "NO", "yes", "no", "True", "true", "False", "false", "NULL", "None", "null", "nil",
              "1:23", "01:02:03", "1/2", "50%", "#1", "0=0", "0.000=0.000", "1=2=3"]


def gen_string(rng, profile, maxlen=8):
    """profile: plain | meta | wild | enc:<codec>"""
    if profile.startswith("enc:"):
        rep = repertoire(profile[4:])
        n = rng.randint(0, maxlen)
        if rng.random() < 0.04:
            # long multi-byte text: characters straddle every buffer / chunk boundary
            n = rng.choice([2100, 2800, 4100, 5500, 8200])
            return "".join(rng.choice(rep) if rng.random() < 0.8 else "a" for _ in range(n))
        return "".join(rng.choice(rep) if rng.random() < 0.5 else rng.choice("abcXYZ 019")
                       for _ in range(n))
    r = rng.random()
    if r < 0.08:
        return ""
    if r < 0.16:
        return rng.choice(["0", "1", "a", " ", "\n", ":", ";", "#", "\\", "/"])
    if r < 0.20:
        v = rng.choice(VALUE_LIKE)
        return v if profile != "plain" or v.isascii() else "0"
    if profile == "plain":
        pool = PLAIN
    elif profile == "meta":
        pool = META * 3 + PLAIN
    else:
        pool = META * 2 + PLAIN + UNI * 2
    n = rng.randint(1, maxlen)
    if rng.random() < 0.03:
        n = rng.randint(4000, 9000)          # straddles the 4096 / 8192 chunk sizes
        return "".join(rng.choice(PLAIN) for _ in range(n))
    return "".join(rng.choice(pool) for _ in range(n))


def gen_dense_string(rng, size=None):
    """Boundary-dense long text: a two-character sequence that is escaped (or
    translated) as a unit - '//' or CR LF - placed so that it straddles offset k*B
    for every power-of-two block size B from 1 Ki to 64 Ki (k = 1..3), shifted by a
    small seeded amount (0 for a component written as is, 1 for SM note data which is
    written after a line break, or anything up to 63).  Line breaks every 64
    characters keep msdparser's lexer out of its quadratic no-newline path."""
    size = size or rng.choice([9000, 26000, 26000, 26000, 200000])
    shift = rng.choice([0, 0, 1, 1, rng.randint(0, 63)])
    two = rng.choice(["//", "//", "\r\n"])
    chars = ["a"] * size
    for i in range(63, size, 64):
        chars[i] = "\n"
    block = 1024
    while block <= 65536:
        for k in (1, 2, 3):
            pos = k * block - 1 - shift
            if 1 <= pos and pos + 2 < size:
                chars[pos - 1] = "a"
                chars[pos] = two[0]
                chars[pos + 1] = two[1]
                chars[pos + 2] = "a"
        block *= 2
    return "".join(chars)


# values as they occur in real simfiles (a change keyed on "what StepMania would do" with a
# particular kind of value needs such values to show)
REALISTIC = {
    "DISPLAYBPM": ["150", "60:240", "150:150", "150.000:150.000", "128:128.0", "*", "0:0", "1:1", "90:180:180"],
    "ATTACKS": ["TIME=1.000:LEN=0.500:MODS=drunk", "TIME=1.000:END=2.000:MODS=*2 dizzy", ":TIME=1", "::"],
    "BPMS": ["0.000=120.000", "0.000=120.000,16.000=240.000", "0=60"],
    "STOPS": ["", "4.000=0.500", "4=1,8=1"],
    "OFFSET": ["0.000000", "-0.060", "0"],
    "SELECTABLE": ["YES", "NO", "ROULETTE"],
    "BANNER": ["banner.png", "..\\shared\\banner.png", "gfx/bn.png"],
    "BACKGROUND": ["bg.png", "..\\shared\\bg.png"],
    "MUSIC": ["song.ogg", "audio\\song.mp3"],
    "VERSION": ["0.83", "0.81"],
}
DIFFICULTIES = ["Beginner", "Easy", "Medium", "Hard", "Challenge", "Edit", "basic", "light", "another",
                "trick", "standard", "difficult", "ssr", "maniac", "heavy", "smaniac", "expert", "oni",
                "HEAVY", "Oni", "beginner", "challenge"]
STEPSTYPES = ["dance-single", "dance-double", "dance-solo", "pump-single", "dance-couple", "lights-cabinet",
              # the rest of StepMania's vocabulary, current and legacy spellings
              "dance-threepanel", "dance-routine", "pump-halfdouble", "pump-double", "pump-couple",
              "pump-routine", "kb7-single", "ez2-single", "ez2-double", "ez2-real", "para-single",
              "para-versus", "ds3ddx-single", "bm-single5", "bm-double7", "bm-single", "bm-double",
              "maniax-single", "maniax-double", "techno-single4", "techno-double8", "pnm-five", "pnm-nine",
              "kickbox-human", "para", "ez2-single-hard", "ez2-double-hard", "Dance-Single", "PARA"]
# tags StepMania knows (or knew): legacy spellings, cache-only tags, other formats' tags
LEGACY_TAGS = ["LASTBEATHINT", "LASTSECONDHINT", "FIRSTBEAT", "LASTBEAT", "FIRSTSECOND", "LASTSECOND",
               "BGCHANGES2", "BGCHANGES3", "FGCHANGES", "ANIMATIONS", "FREEZES", "FREEZE", "STOP", "DELAYS",
               "MUSICLENGTH", "MUSICBYTES", "SONGFILENAME", "STEPFILENAME", "HASMUSIC", "HASBANNER",
               "DISCIMAGE", "DISC", "CDIMAGE", "JACKET", "PREVIEW", "PREVIEWVID", "LYRICSPATH", "LYRICS",
               "MENUCOLOR", "BPM", "BPMS", "CHANGEBPM", "GAP", "FILE", "DISPLAYTITLE", "DISPLAYARTIST",
               "CHARTNAME", "CHARTSTYLE", "STEPSTYPE", "NOTETYPE", "STEPS", "NOTES2", "NOTES3", "NOTEDATA",
               "SAMPLESTART", "SAMPLELENGTH", "SAMPLE", "TITLETRANSLIT", "SUBTITLETRANSLIT", "ARTISTTRANSLIT",
               "ORIGIN", "GENRE", "CREDIT", "AUTHOR", "DESCRIPTION", "DIFFICULTY", "METER", "RADARVALUES",
               "OFFSET", "OFFSETS", "TIMESIGNATURES", "TIMESIGNATURE", "TICKCOUNTS", "TICKCOUNT", "COMBOS",
               "WARPS", "NEGATIVEBPMS", "SPEEDS", "SCROLLS", "FAKES", "LABELS", "KEYSOUNDS", "ATTACKS",
               "INSTRUMENTTRACK", "SELECTABLE", "DISPLAYBPM", "BACKGROUND", "BANNER", "CDTITLE", "MUSIC"]


def gen_value_for_key(rng, key, profile, none_rate=0.06):
    if key in REALISTIC and rng.random() < 0.35:
        return rng.choice(REALISTIC[key])
    return gen_value(rng, profile, none_rate)


def gen_value(rng, profile, none_rate=0.06):
    if rng.random() < none_rate:
        return None
    if profile in ("meta", "wild") and rng.random() < 0.002:
        return gen_dense_string(rng)
    return gen_string(rng, profile)


# characters that are their own upper() but not their own lower().upper() / casefold().upper():
# a loader that normalises keys any other way than str.upper() shows on these
UPPER_STABLE = ["\u0130", "\u1e9e", "\u212a", "\u212b", "\u2126", "\u01c4", "\u03a3", "\u00c9", "\u0401"]
UNICODE_SPACE = ["\u3000", "\xa0", "\x0b", "\x0c", "\x1c", "\x1d", "\x85", "\u2028", "\u2029", "\u2003"]


def upper_key(s):
    """Make s a legal key of the round-trip domain: equal to its own upper()."""
    u = s.upper()
    return u if u.upper() == u else "K"


def gen_key(rng, fmt, profile, level="simfile"):
    known = KNOWN_SM if fmt == "sm" else (KNOWN_SSC if level == "simfile" else KNOWN_SSC_CHART)
    r = rng.random()
    if r < 0.55:
        k = rng.choice(known)
    elif r < 0.65:
        k = rng.choice(MULTI)
    elif r < 0.72:
        k = rng.choice(["VERSION", "BGCHANGES2", "X", "", "NOTES2", "NOTES", "NOTES3", "NOTESKIN",
                        "ATTAC\u212aS", "\u212aEYSOUNDS", "ATTACKS2", "XDISPLAYBPM", "NOTEDATA2",
                        "VERS\u0130ON", "VERSIONS", "VERSION ", "D\u0130SPLAYBPM", "T\u0130TLE"])
    elif r < 0.77:
        k = rng.choice(LEGACY_TAGS)
    elif r < 0.79 and not profile.startswith("enc:") and profile != "plain":
        k = "".join(rng.choice(UPPER_STABLE + ["A", "Z", "_"]) for _ in range(rng.randint(1, 4)))
    elif r < 0.81 and not profile.startswith("enc:"):
        k = "K" * rng.choice([300, 4090, 4097, 8200])          # long keys
    else:
        k = upper_key(gen_string(rng, profile, 5))
    return k


def stripped(s):
    return s.strip()


def gen_field(rng, profile):
    if profile in ("meta", "wild") and rng.random() < 0.003:
        return gen_dense_string(rng).replace("\r", "").strip()
    return gen_string(rng, profile).strip()


def gen_sm_chart_spec(rng, profile):
    if rng.random() < 0.2:
        return {"from": "blank"}
    spec = {"from": "fields", "fields": [gen_field(rng, profile) for _ in range(6)]}
    if rng.random() < 0.35:
        spec["fields"][0] = rng.choice(STEPSTYPES)
        spec["fields"][2] = rng.choice(DIFFICULTIES)
        spec["fields"][3] = rng.choice(["1", "9", "12", "0"])
    if rng.random() < 0.012:
        # long note data whose escapable pairs straddle block boundaries (written after a
        # line break, hence the shift of one)
        spec["fields"][5] = gen_dense_string(rng, rng.choice([26000, 70000, 200000])).replace("\r", "").strip()
    if rng.random() < 0.3:
        order = list(range(6))
        rng.shuffle(order)
        spec["from"] = "ctor"
        spec["order"] = order
        spec["via"] = rng.choice(["attr", "key"])
    if rng.random() < 0.3:
        spec["extra"] = [gen_string(rng, profile) for _ in range(rng.randint(1, 3))]
    return spec


def gen_ssc_chart_spec(rng, profile, hazards=True):
    if rng.random() < 0.2:
        return {"from": "blank"}
    n = rng.randint(0, 6)
    items = []
    keys = set()
    for _ in range(n):
        k = gen_key(rng, "ssc", profile, "chart")
        if k in ("NOTEDATA", "NOTES", "NOTES2") or k in keys:
            continue
        keys.add(k)
        items.append([k, gen_value(rng, profile)])
    nk = "NOTES2" if rng.random() < 0.25 else "NOTES"
    notes = gen_value(rng, profile, 0.03)
    if rng.random() < 0.012:
        notes = gen_dense_string(rng, rng.choice([26000, 70000, 200000]))
    pos = rng.randint(0, len(items))
    items.insert(pos, [nk, notes])
    if hazards and rng.random() < 0.5 and notes is not None:
        # identity hazards: other properties holding the very same string object,
        # or an equal (interned) one
        tag = "h%d" % rng.randint(0, 2)
        items[pos] = [nk, notes, tag]
        for it in items:
            if it[0] != nk and rng.random() < 0.6:
                it[1:] = [notes, tag] if rng.random() < 0.7 else [notes]
    return {"from": "items", "items": items}


def gen_chart_spec(rng, fmt, profile, nchart_hint=0):
    if nchart_hint > 0 and rng.random() < 0.1:
        # a copy of a chart that is already in the list - or the very same object once more
        return {"from": "copyof", "i": rng.randint(0, nchart_hint - 1),
                "how": rng.choice(["deepcopy", "copy", "pickle", "same"])}
    return gen_sm_chart_spec(rng, profile) if fmt == "sm" else gen_ssc_chart_spec(rng, profile)


# ------------------------------------------------------------------ edit ops
def gen_edit_op(rng, fmt, profile, nchart_hint, domain="roundtrip", weights=None):
    """One edit op.  ``domain='roundtrip'`` keeps objects inside the C01/C02
    domain (upper-case keys, not NOTES/NOTEDATA at simfile level, stripped SM
    fields, exactly one of NOTES/NOTES2 per SSC chart is preserved by not
    touching those keys except through value assignment)."""
    w = weights or {}
    kinds = [("set_key", 5), ("set_attr", 4), ("del_key", 2), ("del_attr", 1.5), ("get_attr", 0.7),
             ("get_key", 0.5), ("contains", 0.3), ("iter", 0.2), ("move", 0.8),
             ("dict_pop", 0.5), ("dict_popitem", 0.3), ("dict_setdefault", 0.6), ("rename_key", 0.5),
             ("charts_append", 1.5), ("charts_insert", 0.7), ("charts_remove", 0.8),
             ("charts_swap", 0.6), ("charts_reverse", 0.3), ("charts_replace", 0.5),
             ("charts_assign", 0.4), ("chart", 6)]
    kinds = [(k, w.get(k, wt)) for k, wt in kinds]
    kind = wchoice(rng, kinds)
    simattrs = sorted(ATTRS[fmt])
    if kind == "chart":
        return gen_chart_op(rng, fmt, profile, nchart_hint, domain)
    if kind == "dict_popitem":
        return {"op": kind, "last": rng.random() < 0.5}
    if kind == "rename_key":
        # the same value object moved under another key (alias pairs most of the time)
        pairs = [("STOPS", "FREEZES"), ("BGCHANGES", "ANIMATIONS"), ("TITLE", "TITLETRANSLIT"),
                 ("ATTACKS", "DISPLAYBPM"), ("ARTIST", "ATTACKS"), ("BANNER", "BACKGROUND")]
        a, b = rng.choice(pairs)
        if rng.random() < 0.5:
            a, b = b, a
        if rng.random() < 0.25:
            b = gen_key(rng, fmt, profile)
            if domain == "roundtrip" and (b == "NOTEDATA" or (fmt == "sm" and b == "NOTES")):
                b = "SUBTITLE"
        return {"op": "rename_key", "key": a, "new": b}
    if kind in ("set_key", "del_key", "get_key", "contains", "move", "dict_pop", "dict_setdefault"):
        k = gen_key(rng, fmt, profile)
        if domain == "roundtrip" and (k == "NOTEDATA" or (fmt == "sm" and k == "NOTES")):
            k = "TITLE"
        op = {"op": kind, "key": k}
        if kind in ("set_key", "dict_setdefault"):
            op["value"] = gen_value_for_key(rng, k, profile)
        if kind == "move":
            op["last"] = rng.random() < 0.5
        return op
    if kind in ("set_attr", "del_attr", "get_attr"):
        a = rng.choice(simattrs)
        if rng.random() < 0.35:
            a = rng.choice(["stops", "bgchanges", "attacks", "displaybpm"])
        op = {"op": kind, "attr": a}
        if kind == "set_attr":
            op["value"] = gen_value_for_key(rng, a.upper(), profile)
        return op
    if kind == "iter":
        return {"op": "iter"}
    if kind == "charts_append":
        return {"op": kind, "chart": gen_chart_spec(rng, fmt, profile, nchart_hint)}
    if kind == "charts_insert":
        return {"op": kind, "pos": rng.randint(0, max(0, nchart_hint)),
                "chart": gen_chart_spec(rng, fmt, profile, nchart_hint)}
    if kind == "charts_replace":
        return {"op": kind, "i": rng.randint(0, max(0, nchart_hint - 1)),
                "chart": gen_chart_spec(rng, fmt, profile, nchart_hint)}
    if kind == "charts_remove":
        return {"op": kind, "i": rng.randint(0, max(0, nchart_hint - 1))}
    if kind == "charts_swap":
        return {"op": kind, "i": rng.randint(0, max(0, nchart_hint - 1)),
                "j": rng.randint(0, max(0, nchart_hint - 1))}
    if kind == "charts_reverse":
        return {"op": kind}
    if kind == "charts_assign":
        n = max(0, nchart_hint)
        order = list(range(n))
        rng.shuffle(order)
        if order and rng.random() < 0.4:
            order.pop()
        return {"op": kind, "order": order, "as": rng.choice(["list", "tuple"])}
    raise AssertionError(kind)


def gen_chart_op(rng, fmt, profile, nchart_hint, domain="roundtrip"):
    i = rng.randint(0, max(0, nchart_hint - 1))
    if fmt == "sm":
        kind = wchoice(rng, [("set_key", 3), ("set_attr", 3), ("set_extra", 1.5), ("get_key", 0.4),
                             ("get_attr", 0.4), ("iter", 0.2), ("contains", 0.2), ("extra_inplace", 1.2)])
        if kind == "extra_inplace":
            return {"op": "extra_inplace", "i": i, "how": rng.choice(["append", "setitem", "del", "insert"]),
                    "value": gen_string(rng, profile), "pos": rng.randint(0, 2)}
        if kind in ("set_key", "get_key", "contains"):
            op = {"op": kind, "i": i, "key": rng.choice(SM_FIELDS)}
            if kind == "set_key":
                op["value"] = gen_field(rng, profile)
            return op
        if kind in ("set_attr", "get_attr"):
            op = {"op": kind, "i": i, "attr": rng.choice(SM_FIELDS).lower()}
            if kind == "set_attr":
                op["value"] = gen_field(rng, profile)
                if op["attr"] == "difficulty" and rng.random() < 0.5:
                    op["value"] = rng.choice(DIFFICULTIES)
            return op
        if kind == "set_extra":
            ex = None if rng.random() < 0.3 else \
                [gen_string(rng, profile) for _ in range(rng.randint(0, 3))]
            return {"op": kind, "i": i, "extra": ex}
        return {"op": "iter", "i": i}
    # SSC chart
    kind = wchoice(rng, [("set_key", 4), ("set_attr", 3), ("del_key", 1.5), ("del_attr", 1),
                         ("move", 1.5), ("get_attr", 0.4), ("get_key", 0.3), ("iter", 0.2),
                         ("contains", 0.2), ("set_notes_shared", 1.5), ("dict_pop", 0.6),
                         ("dict_setdefault", 0.8), ("rename_key", 1.0)])
    attrs = sorted(ATTRS["sscchart"])
    if kind == "set_notes_shared":
        # the identity hazard as a history: note data and another property
        # assigned the very same (or an interned-equal) object
        v = rng.choice(["", "0", "1", gen_string(rng, profile)])
        return {"op": "set_attr", "i": i, "attr": "notes", "value": v, "share": "n",
                "then": {"op": "set_key", "i": i, "key": rng.choice(KNOWN_SSC_CHART), "value": v,
                         "share": "n" if rng.random() < 0.7 else None}}
    if kind == "rename_key":
        # NOTES <-> NOTES2 keeping the very same note data object (exactly one of the two
        # stays present), or another property moved under another key
        a, b = rng.choice([("NOTES", "NOTES2"), ("NOTES2", "NOTES"), ("NOTES", "NOTES2"),
                           ("CREDIT", "DESCRIPTION"), ("ATTACKS", "CREDIT"), ("DISPLAYBPM", "ATTACKS")])
        return {"op": "rename_key", "i": i, "key": a, "new": b}
    if kind in ("set_key", "del_key", "get_key", "contains", "move", "dict_pop", "dict_setdefault"):
        k = gen_key(rng, "ssc", profile, "chart")
        if domain == "roundtrip":
            if k == "NOTEDATA":
                k = "CREDIT"
            if kind in ("del_key", "dict_pop", "dict_setdefault") and k in ("NOTES", "NOTES2"):
                k = "CREDIT"
            if kind == "set_key" and k in ("NOTES", "NOTES2"):
                # only through the attribute, which keeps exactly one of them present
                return {"op": "set_attr", "i": i, "attr": "notes", "value": gen_value(rng, profile, 0.03)}
        op = {"op": kind, "i": i, "key": k}
        if kind in ("set_key", "dict_setdefault"):
            op["value"] = gen_value(rng, profile)
        if kind == "move":
            op["last"] = rng.random() < 0.5
            if rng.random() < 0.5:
                op["key"] = rng.choice(["NOTES", "NOTES2"])
        return op
    if kind in ("set_attr", "del_attr", "get_attr"):
        a = rng.choice(attrs)
        if domain == "roundtrip" and kind == "del_attr" and a == "notes":
            a = "credit"
        op = {"op": kind, "i": i, "attr": a}
        if kind == "set_attr":
            op["value"] = gen_value(rng, profile)
        return op
    return {"op": "iter", "i": i}


def flatten_ops(ops):
    """Expand the 'then' chains used for hazard pairs into a flat list."""
    out = []
    for op in ops:
        op = dict(op)
        nxt = op.pop("then", None)
        out.append(op)
        if nxt:
            out.extend(flatten_ops([nxt]))
    return out


# ------------------------------------------------------------ simfile texts
def gen_simfile_text(rng, fmt, profile, nparams=None, ncharts=None, messy=0.0):
    """A well-formed simfile text (used as stored input for the mutate workload).
    messy>0 mixes in lower-case keys, duplicates, key-only parameters and comments."""
    lines = []
    keys = []
    if fmt == "ssc" and rng.random() < 0.8:
        lines.append("#VERSION:0.83;")
    n = rng.randint(0, 6) if nparams is None else nparams
    for _ in range(n):
        k = gen_key(rng, fmt, "plain")
        if rng.random() < 0.12:
            k = gen_string(rng, profile, 4)       # keys from the code page too (any letter case)
            if k.upper() in ("NOTES", "NOTEDATA"):
                k = "TITLE"
        if k in ("NOTES", "NOTEDATA", "", "NOTES2"):
            k = "TITLE"
        if rng.random() < messy:
            k = k.lower() if rng.random() < 0.5 else k.capitalize()
        v = gen_string(rng, profile)
        if k in REALISTIC and rng.random() < 0.3:
            v = rng.choice(REALISTIC[k])
            if k in MULTI:
                lines.append("#%s:%s;" % (esc(k), v))       # components as written in real files
                continue
        if rng.random() < messy * 0.5:
            lines.append("#%s;" % esc(k))
        else:
            lines.append("#%s:%s;" % (esc(k), esc(v)))
        if rng.random() < messy * 0.3:
            lines.append("// comment %s" % gen_string(rng, "plain").replace("\n", " "))
    nc = rng.randint(0, 2) if ncharts is None else ncharts
    for _ in range(nc):
        if fmt == "sm" and messy and rng.random() < 0.15:
            # structurally malformed chart: fewer than six components (the loader must
            # raise ValueError, after the file decoded fine)
            lines.append("#NOTES:" + ":".join(esc(gen_string(rng, profile).strip())
                                              for _ in range(rng.randint(1, 5))) + ";")
            continue
        if fmt == "sm":
            f = [gen_string(rng, profile).strip() for _ in range(6)]
            extra = ""
            if rng.random() < 0.25:
                # more than six components: the surplus ones are kept as extra components
                extra = "".join(":" + esc(gen_string(rng, profile)) for _ in range(rng.randint(1, 3)))
            lines.append("#NOTES:" + ":".join("\n     " + esc(x) for x in f[:5])
                         + ":\n" + esc(f[5]) + "\n" + extra + ";")
        else:
            lines.append("#NOTEDATA:;")
            for _ in range(rng.randint(0, 3)):
                k = gen_key(rng, "ssc", "plain", "chart")
                if k in ("NOTES", "NOTEDATA", "", "NOTES2"):
                    k = "CREDIT"
                lines.append("#%s:%s;" % (esc(k), esc(gen_string(rng, profile))))
            lines.append("#%s:%s;" % ("NOTES2" if rng.random() < 0.2 else "NOTES",
                                     esc(gen_string(rng, profile))))
    return "\n".join(lines) + ("\n" if lines else "")


def esc(s):
    for ch in ("\\", "//", ":", ";"):
        s = s.replace(ch, "\\" + ch)
    return s
