"""Reference models (oracles).  Written from the documentation
(docs/source/known-properties.rst, the docstrings and the property texts), not
from the classes: nothing here imports ``simfile``.

The MSD tokenizer (``msdparser.parse_msd``) is the trusted base the loading
rules are applied to, exactly as the property texts say.
"""
import copy
import re

from msdparser import MSDParameter, MSDParserError, parse_msd

MULTI = ("ATTACKS", "DISPLAYBPM")
SM_FIELDS = ("STEPSTYPE", "DESCRIPTION", "DIFFICULTY", "METER", "RADARVALUES", "NOTES")

# ---------------------------------------------------------------- attributes
# Transcribed from docs/source/known-properties.rst.  attr -> (standard key, alias)
_BASE_SIMFILE = """TITLE SUBTITLE ARTIST TITLETRANSLIT SUBTITLETRANSLIT ARTISTTRANSLIT GENRE
CREDIT BANNER BACKGROUND LYRICSPATH CDTITLE MUSIC OFFSET BPMS STOPS DELAYS TIMESIGNATURES
TICKCOUNTS INSTRUMENTTRACK SAMPLESTART SAMPLELENGTH DISPLAYBPM SELECTABLE BGCHANGES
FGCHANGES KEYSOUNDS ATTACKS""".split()
_SSC_SIMFILE = """VERSION ORIGIN PREVIEWVID JACKET CDIMAGE DISCIMAGE PREVIEW MUSICLENGTH
LASTSECONDHINT WARPS LABELS COMBOS SPEEDS SCROLLS FAKES""".split()
_BASE_CHART = "STEPSTYPE DESCRIPTION DIFFICULTY METER RADARVALUES NOTES".split()
_SSC_CHART = """CHARTNAME CHARTSTYLE CREDIT MUSIC BPMS STOPS DELAYS TIMESIGNATURES TICKCOUNTS
COMBOS WARPS SPEEDS SCROLLS FAKES LABELS ATTACKS OFFSET DISPLAYBPM""".split()


def _table(keys, aliases):
    return {k.lower(): (k, aliases.get(k)) for k in keys}


ATTRS = {
    "sm": _table(_BASE_SIMFILE, {"STOPS": "FREEZES", "BGCHANGES": "ANIMATIONS"}),
    "ssc": _table(_BASE_SIMFILE + _SSC_SIMFILE, {"BGCHANGES": "ANIMATIONS"}),
    "smchart": _table(_BASE_CHART, {}),
    "sscchart": _table(_BASE_CHART + _SSC_CHART, {"NOTES": "NOTES2"}),
}


# -------------------------------------------------------------------- mapping
class RefMap:
    """An insertion-ordered mapping with documented attribute aliases."""

    def __init__(self, kind, items=None):
        self.kind = kind           # key into ATTRS
        self.items = [list(i) for i in (items or [])]

    def keys(self):
        return [k for k, _ in self.items]

    def has(self, key):
        return any(k == key for k, _ in self.items)

    def get(self, key):
        for k, v in self.items:
            if k == key:
                return v
        raise KeyError(key)

    def set(self, key, value):
        for it in self.items:
            if it[0] == key:
                it[1] = value
                return
        self.items.append([key, value])

    def delete(self, key):
        for i, it in enumerate(self.items):
            if it[0] == key:
                del self.items[i]
                return
        raise KeyError(key)

    def move_to_end(self, key, last=True):
        for i, it in enumerate(self.items):
            if it[0] == key:
                del self.items[i]
                if last:
                    self.items.append(it)
                else:
                    self.items.insert(0, it)
                return
        raise KeyError(key)

    def attr_key(self, attr):
        """The key an attribute reads / writes / deletes: the standard key, or
        the alias exactly when the alias is present and the standard key is not."""
        name, alias = ATTRS[self.kind][attr]
        if not self.has(name) and alias and self.has(alias):
            return alias
        return name

    def attr_get(self, attr):
        k = self.attr_key(attr)
        return self.get(k) if self.has(k) else None


class RefSMChart(RefMap):
    def __init__(self, fields, extra=None):
        super().__init__("smchart", [[k, v] for k, v in zip(SM_FIELDS, fields)])
        self.extra = list(extra) if extra else None

    @classmethod
    def from_items(cls, items, extra=None):
        c = cls([])
        c.items = [list(i) for i in items]
        c.extra = list(extra) if extra else None
        return c

    def plain(self):
        return {"t": "smchart", "items": [list(i) for i in self.items], "extra": self.extra or None}


class RefSSCChart(RefMap):
    def __init__(self, items=None):
        super().__init__("sscchart", items)

    def notes_key(self):
        if self.has("NOTES"):
            return "NOTES"
        if self.has("NOTES2"):
            return "NOTES2"
        return None

    def normalised_items(self):
        """Items with the note data item moved last (what a save/load cycle gives)."""
        nk = self.notes_key()
        if nk is None:
            return [list(i) for i in self.items]
        rest = [list(i) for i in self.items if i[0] != nk]
        return rest + [[nk, self.get(nk)]]

    def plain(self):
        return {"t": "sscchart", "items": [list(i) for i in self.items]}


class RefSimfile(RefMap):
    def __init__(self, kind, items=None, charts=None):
        super().__init__(kind, items)
        self.charts = charts if charts is not None else []

    def plain(self):
        return {"t": self.kind, "items": [list(i) for i in self.items],
                "charts": [c.plain() for c in self.charts]}

    def normalised_plain(self):
        """What a save / load cycle gives: SSC note data moved last, SM chart
        fields in the documented order."""
        d = self.plain()
        if self.kind == "ssc":
            for c, pc in zip(self.charts, d["charts"]):
                pc["items"] = c.normalised_items()
        else:
            for c, pc in zip(self.charts, d["charts"]):
                if isinstance(c, RefSMChart) and sorted(c.keys()) == sorted(SM_FIELDS):
                    pc["items"] = [[k, c.get(k)] for k in SM_FIELDS]
        return d

    def clone(self):
        return copy.deepcopy(self)


def chart_from_plain(p):
    if p["t"] == "smchart":
        return RefSMChart.from_items(p["items"], p.get("extra"))
    return RefSSCChart(p["items"])


def simfile_from_plain(p):
    return RefSimfile(p["t"], p["items"], [chart_from_plain(c) for c in p["charts"]])


# -------------------------------------------------------------------- loading
class LoadError:
    """Expected failure of a load."""

    def __init__(self, exc, message=None):
        self.exc = exc             # "MSDParserError" | "ValueError"
        self.message = message

    def __repr__(self):
        return "LoadError(%s, %r)" % (self.exc, self.message)


def _value(key, comps, keyonly_multi):
    if key in MULTI:
        if len(comps) == 1:
            return keyonly_multi
        return ":".join(comps[1:])
    return comps[1] if len(comps) > 1 else None


def ref_load(text, kind, strict=True, keyonly_multi=None):
    """Apply the documented loading rules to the text's MSD parameters in order.

    Returns a RefSimfile or a LoadError (the first error in stream order).
    ``keyonly_multi`` is the value given to a key-only ATTACKS/DISPLAYBPM
    parameter (the statement has two applicable rules there)."""
    m = RefSimfile(kind)
    chart = None
    try:
        for p in parse_msd(string=text, ignore_stray_text=not strict):
            comps = tuple(p.components)
            key = comps[0].upper()
            if kind == "sm":
                if key == "NOTES":
                    vals = comps[1:]
                    if len(vals) < 6:
                        return LoadError("ValueError")
                    m.charts.append(RefSMChart([v.strip() for v in vals[:6]], vals[6:]))
                else:
                    m.set(key, _value(key, comps, keyonly_multi))
            else:
                if key == "NOTEDATA":
                    chart = RefSSCChart()
                    m.charts.append(chart)
                elif chart is not None:
                    chart.set(key, _value(key, comps, keyonly_multi))
                else:
                    m.set(key, _value(key, comps, keyonly_multi))
    except MSDParserError as e:
        return LoadError("MSDParserError", str(e))
    return m


def ref_load_sscchart(text, strict=True, keyonly_multi=None):
    """SSCChart.from_str: first parameter must be NOTEDATA (else ValueError),
    parsing ends at the NOTES (or NOTES2) parameter."""
    chart = None
    try:
        for p in parse_msd(string=text, ignore_stray_text=not strict):
            comps = tuple(p.components)
            key = comps[0].upper()
            if chart is None:
                if key != "NOTEDATA":
                    return LoadError("ValueError")
                chart = RefSSCChart()
                continue
            chart.set(key, _value(key, comps, keyonly_multi))
            if key in ("NOTES", "NOTES2"):
                break
    except MSDParserError as e:
        return LoadError("MSDParserError", str(e))
    if chart is None:
        return LoadError("StopIteration")
    return chart


def ref_detect(name, text, strict=True):
    """Format: by suffix of the file name (when it is a str), else SSC exactly
    when the first parameter's key is VERSION in any letter case.
    Returns "sm" | "ssc" | LoadError."""
    if isinstance(name, str):
        suffix = name.lower().rpartition(".")[2]
        if suffix == "ssc":
            return "ssc"
        if suffix == "sm":
            return "sm"
    try:
        for p in parse_msd(string=text, ignore_stray_text=not strict):
            return "ssc" if p.components[0].upper() == "VERSION" else "sm"
    except MSDParserError as e:
        return LoadError("MSDParserError", str(e))
    return "sm"


def strip_stray_text(text):
    """The same text with the stray text removed, computed from the trusted
    lexer: drop TEXT tokens that lie outside parameters."""
    from msdparser.lexer import MSDToken, lex_msd
    out = []
    inside = False
    for tok, val in lex_msd(string=text):
        if tok is MSDToken.START_PARAMETER:
            inside = True
            out.append(val)
        elif tok is MSDToken.END_PARAMETER:
            if inside:
                out.append(val)
            inside = False
        elif tok is MSDToken.TEXT:
            if inside:
                out.append(val)
            elif val.isspace():
                out.append(val)
            elif val == "\ufeff":
                # the tokenizer ignores a text token that is exactly a BOM; blank it so
                # that it cannot merge with neighbouring blanks into a non-blank token
                out.append(" ")
            else:
                # Blank out the stray token character by character, keeping its line
                # breaks, so that comments still end where they ended and the
                # tokenizer's missing-semicolon recovery (which looks at whether the
                # last text token ends a line) sees the same line structure.
                out.append("".join(c if c in "\r\n" else " " for c in val))
        elif tok is MSDToken.COMMENT:
            out.append(val)
        else:
            if inside:
                out.append(val)
    return "".join(out)


# ------------------------------------------------------------------- emitting
def _emit_item(key, value):
    if value is None:
        return (key,)
    if key in MULTI:
        return (key,) + tuple(value.split(":"))
    return (key, value)


def ref_emit(model):
    """The parameter / component structure the serialised text must tokenize to."""
    out = []
    if isinstance(model, RefSimfile):
        for k, v in model.items:
            out.append(_emit_item(k, v))
        for c in model.charts:
            out.extend(ref_emit(c))
        return out
    if isinstance(model, RefSMChart):
        # documented field order, whatever order the mapping holds the keys in
        f = [model.get(k) for k in SM_FIELDS]
        out.append(("NOTES",) + tuple("\n     %s" % x for x in f[:5])
                   + ("\n%s\n" % f[5],) + tuple(model.extra or ()))
        return out
    if isinstance(model, RefSSCChart):
        out.append(("NOTEDATA", ""))
        nk = model.notes_key()
        for k, v in model.items:
            if k == nk:
                continue
            out.append(_emit_item(k, v))
        if nk is not None:
            v = model.get(nk)
            out.append((nk,) if v is None else (nk, v))
        return out
    raise TypeError(model)


def _sm_complete(c):
    return sorted(c.keys()) == sorted(SM_FIELDS)


def serialisable(model):
    """Whether every value the serializer must write is a str or None."""
    def ok(v):
        return v is None or isinstance(v, str)
    if isinstance(model, RefSimfile):
        return all(ok(v) for _, v in model.items) and all(serialisable(c) for c in model.charts)
    if isinstance(model, RefSMChart):
        return _sm_complete(model) and all(isinstance(v, str) for _, v in model.items) and \
            all(isinstance(x, str) for x in (model.extra or ()))
    return all(ok(v) for _, v in model.items) and model.notes_key() is not None


def tokens_of(text, strict=True):
    return [tuple(p.components) for p in parse_msd(string=text, ignore_stray_text=not strict)]


# --------------------------------------------------- dependency escaping gaps
_G1 = re.compile(r"[\r\n][:;\\]*#")
_G1CTX = re.compile(r"^[:;\\]*#")


def dep_roundtrip_ok(params):
    """Does msdparser alone reproduce these parameters when they are written one
    per line (as the serializer does)?  False = the expected emission falls in an
    escaping gap of the dependency."""
    text = "".join(str(MSDParameter(p)) + "\n" for p in params)
    try:
        got = [tuple(p.components) for p in parse_msd(string=text)]
    except (MSDParserError, AssertionError):
        return False
    return got == [tuple(p) for p in params]


def gap_classes(params):
    """Syntactic classes of msdparser escaping gaps present in the emission.

    excluded by the property texts:
      hash-after-linebreak   a value (component) in which '#' follows a line break
                             directly or through ':', ';', '\\' only
      triple-slash-value     a value containing '///'
      hash-in-key            a key containing '#'
    inside the stated domain (known findings, dependency, not repairable here):
      triple-slash-key       a key containing '///'
      hash-across-components '#' reached from a line break in the *previous* component
                             (incl. SM note data followed by an extra component)
      hash-after-blank-key   key made of ':', ';', '\\' only (or empty) and a value starting
                             (through those) with '#': the line break is the one before the parameter
    """
    out = set()
    for idx, p in enumerate(params):
        key = p[0]
        if "#" in key:
            out.add("hash-in-key")
        if "///" in key:
            out.add("triple-slash-key")
        within = False
        for c in p[1:]:
            if "///" in c:
                out.add("triple-slash-value")
            if _G1.search(c):
                out.add("hash-after-linebreak")
                within = True
        joined = ":".join(p)
        if not within and "#" not in key and _G1.search(joined):
            out.add("hash-across-components")
        if "#" not in key and idx > 0 and _G1CTX.match(joined):
            out.add("hash-after-blank-key")
    return out


EXCLUDED_GAPS = {"hash-after-linebreak", "triple-slash-value", "hash-in-key"}
INDOMAIN_GAPS = {"triple-slash-key", "hash-across-components", "hash-after-blank-key"}


# ------------------------------------------------------------------ encodings
DEFAULT_ENCODINGS = ["utf-8", "cp1252", "cp932", "cp949"]


def ref_encoding(data, try_list):
    """First encoding of the list under which the whole byte string decodes."""
    for enc in try_list:
        try:
            data.decode(enc)
            return enc
        except UnicodeDecodeError:
            continue
    return None


def universal_newlines(text):
    return text.replace("\r\n", "\n").replace("\r", "\n")
