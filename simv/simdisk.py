"""The simulated disk: the one owner of stored bytes, listing order and storage faults.

Everything the library does to storage goes through ``SimDisk.call`` which
advances the global event sequence number, appends to the event log and
consults the fault plan *before* any byte is touched.  Nothing in here draws
from a global PRNG or reads a clock: listing permutations and short-read /
short-write sizes are pure functions of integers stored in the scenario.
"""
import errno as _errno
import hashlib
import io
import posixpath
import random

ERRNOS = {
    "EIO": _errno.EIO,
    "ENOSPC": _errno.ENOSPC,
    "EACCES": _errno.EACCES,
}

# kinds of storage calls
OPEN_R, OPEN_W, READ, WRITE, SEEK, CLOSE, LISTDIR, STAT, REMOVE, RENAME, MKDIR, RMDIR = (
    "open-r", "open-w", "read", "write", "seek", "close", "listdir", "stat", "remove", "rename",
    "mkdir", "rmdir")
WRITE_SIDE = (OPEN_W, WRITE, REMOVE, RENAME, MKDIR, RMDIR)


class SimKill(BaseException):
    """Simulated process death.  Not an Exception so that library code which
    catches Exception cannot swallow it."""


class InvariantViolation(Exception):
    """Raised from inside the disk when a run-time invariant is broken."""

    def __init__(self, clause, detail):
        super().__init__(clause)
        self.clause = clause
        self.detail = detail


class InjectedOSError(OSError):
    """An injected storage error (so the harness can tell it from a real one)."""


def norm(path):
    """Normalise to the disk's own absolute forward-slash form."""
    if isinstance(path, bytes):
        path = path.decode("utf-8", "surrogateescape")
    p = posixpath.normpath("/" + path)
    if p.startswith("//"):
        p = p[1:]
    return p


class SimDisk:
    def __init__(self, world, config=None, faults=None):
        """world: {"dirs": [...], "files": {path: hex}}"""
        config = config or {}
        self.files = {}
        self.dirs = {"/"}
        for d in world.get("dirs", []):
            self._mkdirs(norm(d))
        for p, hx in world.get("files", {}).items():
            p = norm(p)
            self._mkdirs(posixpath.dirname(p))
            self.files[p] = bytearray(bytes.fromhex(hx))
        # symbolic links to directories (native facade only): {link path: target directory}.
        # With any present, paths are resolved component by component the way the OS does
        # (the link is followed first, '..' then means the parent of the *target*).
        self.symlinks = {}
        for l, t in (world.get("symlinks") or {}).items():
            self._mkdirs(posixpath.dirname(norm(l)))
            self.symlinks[norm(l)] = norm(t)
        self.seq = 0                # global event sequence number (storage calls)
        self.events = []            # (seq, kind, path, n)
        self.listings = []          # (seq, path, [entries...]) as returned to the library
        self.frozen = False         # after a kill
        self.fired = []             # faults that actually fired: (kind, call kind, k)
        self.faults = {}
        for f in faults or []:
            self.faults[int(f["k"])] = f
        self.pending_write_fail = None   # set by a short (torn) write
        self.listing_mode = config.get("listing", "sorted")   # sorted|stable|reshuffle
        self.listing_seed = int(config.get("listing_seed", 0))
        sr = config.get("short_reads")
        self.short_read_rng = random.Random(int(sr)) if sr is not None else None
        sw = config.get("short_writes")
        self.short_write_rng = random.Random(int(sw)) if sw is not None else None
        self.buggify = {"short_read": 0, "short_write_retry": 0}
        self.raw_readers = bool(config.get("raw_readers"))
        # tree change injected right after the n-th directory listing (C19 consistency mode)
        self.change_after_listing = config.get("change_after_listing")
        self.listing_calls = 0
        self.open_handles = {}      # path -> count of open write handles
        self.on_open_w = None       # invariant hook: f(disk, path)
        self.step_cap = int(config.get("step_cap", 200000))

    # ------------------------------------------------------------------ tree
    def _mkdirs(self, d):
        while d not in self.dirs:
            self.dirs.add(d)
            d = posixpath.dirname(d)

    def norm(self, path, follow_last=True):
        """The disk path a library path names: lexical when the world has no symbolic
        links, physical (component-wise, as the OS resolves names) when it has."""
        if not self.symlinks:
            return norm(path)
        if isinstance(path, bytes):
            path = path.decode("utf-8", "surrogateescape")
        parts = [c for c in path.split("/") if c and c != "."]
        cur = ""
        hops = 0
        i = 0
        while i < len(parts):
            c = parts[i]
            i += 1
            if c == "..":
                cur = cur.rsplit("/", 1)[0] if cur else ""
                continue
            nxt = cur + "/" + c
            if nxt in self.symlinks and (follow_last or i < len(parts)):
                hops += 1
                if hops > 40:
                    raise OSError(_errno.ELOOP, "Too many levels of symbolic links", path)
                parts[i:i] = [x for x in self.symlinks[nxt].split("/") if x]
                cur = ""
            else:
                cur = nxt
        return cur or "/"

    def snapshot(self):
        return ({p: bytes(b) for p, b in self.files.items()}, frozenset(self.dirs))

    def isdir(self, p):
        return p in self.dirs

    def isfile(self, p):
        return p in self.files

    def children(self, d):
        out = []
        prefix = d if d.endswith("/") else d + "/"
        for p in list(self.files) + list(self.dirs) + list(self.symlinks):
            if p != d and p.startswith(prefix) and "/" not in p[len(prefix):]:
                out.append(p[len(prefix):])
        return sorted(set(out))

    # ------------------------------------------------------------ call / fault
    def call(self, kind, path, n=0):
        """Account for one storage call; raise the planned fault if any."""
        if self.frozen:
            raise SimKill("disk frozen")
        self.seq += 1
        if self.seq > self.step_cap:
            raise RuntimeError("simdisk step cap exceeded")
        k = self.seq
        self.events.append((k, kind, path, n))
        if self.pending_write_fail is not None and kind == WRITE:
            f = self.pending_write_fail
            self.pending_write_fail = None
            self.fired.append(("torn-write-fail", kind, k))
            raise InjectedOSError(ERRNOS[f.get("errno", "EIO")], "injected: torn write", path)
        f = self.faults.get(k)
        if f is None:
            return None
        fk = f["kind"]
        if fk == "kill":
            self.frozen = True
            self.fired.append(("kill", kind, k))
            raise SimKill("killed at storage call %d (%s %s)" % (k, kind, path))
        if fk == "err":
            self.fired.append(("err:" + f.get("errno", "EIO"), kind, k))
            raise InjectedOSError(ERRNOS[f.get("errno", "EIO")], "injected", path)
        if fk == "short-write":
            if kind == WRITE:
                return f            # handled by SimRaw.write
            return None
        raise ValueError("unknown fault kind %r" % (fk,))

    # ---------------------------------------------------------------- listing
    def listdir(self, p):
        """Listing in the order the simulator chooses.  Caller accounts the call."""
        ents = self.children(p)
        mode = self.listing_mode
        if mode == "sorted":
            out = ents
        else:
            if mode == "stable":
                key = "%d|%s" % (self.listing_seed, p)
            else:  # reshuffle
                key = "%d|%s|%d" % (self.listing_seed, p, self.seq)
            r = random.Random(key)
            out = list(ents)
            r.shuffle(out)
        self.listings.append((self.seq, p, list(out)))
        self.listing_calls += 1
        ch = self.change_after_listing
        if ch and self.listing_calls == int(ch["n"]):
            for path, hx in ch.get("add", {}).items():
                q = norm(path)
                if posixpath.dirname(q) in self.dirs:
                    self.files[q] = bytearray(bytes.fromhex(hx))
            for path in ch.get("remove", []):
                self.files.pop(norm(path), None)
            self.fired.append(("tree-changed", LISTDIR, self.seq))
        return list(out)

    # ------------------------------------------------------------------ open
    def open_raw(self, path, mode, name=None):
        """mode: 'r' or 'w'.  Returns a SimRaw.  Errors are OSError subclasses;
        façades convert them."""
        p = self.norm(path)
        if mode == "r":
            self.call(OPEN_R, p)
            if p in self.dirs:
                raise IsADirectoryError(_errno.EISDIR, "Is a directory", path)
            if p not in self.files:
                raise FileNotFoundError(_errno.ENOENT, "No such file or directory", path)
        else:
            self.call(OPEN_W, p)
            if p in self.dirs:
                raise IsADirectoryError(_errno.EISDIR, "Is a directory", path)
            if posixpath.dirname(p) not in self.dirs:
                raise FileNotFoundError(_errno.ENOENT, "No such file or directory", path)
            if self.on_open_w is not None:
                self.on_open_w(self, p)
            # truncation happens only when the open succeeds
            self.files[p] = bytearray()
            self.open_handles[p] = self.open_handles.get(p, 0) + 1
        return SimRaw(self, p, mode, name if name is not None else path)

    def remove(self, path):
        p = self.norm(path, follow_last=False)
        if p in self.symlinks:
            self.call(REMOVE, p)
            del self.symlinks[p]
            return
        self.call(REMOVE, p)
        if p in self.dirs:
            raise IsADirectoryError(_errno.EISDIR, "Is a directory", path)
        if p not in self.files:
            raise FileNotFoundError(_errno.ENOENT, "No such file or directory", path)
        del self.files[p]

    def mkdir(self, path):
        p = self.norm(path)
        self.call(MKDIR, p)
        if p in self.dirs or p in self.files:
            raise FileExistsError(_errno.EEXIST, "File exists", path)
        parent = posixpath.dirname(p)
        if parent in self.files:
            raise NotADirectoryError(_errno.ENOTDIR, "Not a directory", path)
        if parent not in self.dirs:
            raise FileNotFoundError(_errno.ENOENT, "No such file or directory", path)
        self.dirs.add(p)

    def rmdir(self, path):
        p = self.norm(path)
        self.call(RMDIR, p)
        if p in self.files:
            raise NotADirectoryError(_errno.ENOTDIR, "Not a directory", path)
        if p not in self.dirs:
            raise FileNotFoundError(_errno.ENOENT, "No such file or directory", path)
        if self.children(p):
            raise OSError(_errno.ENOTEMPTY, "Directory not empty", path)
        self.dirs.discard(p)

    def rename(self, src, dst):
        a, b = self.norm(src, follow_last=False), self.norm(dst, follow_last=False)
        self.call(RENAME, a)
        if a not in self.files:
            raise FileNotFoundError(_errno.ENOENT, "No such file or directory", src)
        if posixpath.dirname(b) not in self.dirs or b in self.dirs:
            raise FileNotFoundError(_errno.ENOENT, "No such file or directory", dst)
        if self.on_open_w is not None:
            # replacing a file by renaming onto it is the moment its old content goes away:
            # the same invariant hook as for opening it for writing
            self.on_open_w(self, b)
        self.files[b] = self.files.pop(a)

    def log_digest(self):
        h = hashlib.sha256()
        for ev in self.events:
            h.update(repr(ev).encode())
        for ev in self.listings:
            h.update(repr(ev).encode())
        for p in sorted(self.files):
            h.update(p.encode("utf-8", "surrogateescape"))
            h.update(bytes(self.files[p]))
        return h.hexdigest()


class SimRaw(io.RawIOBase):
    """Raw file over a SimDisk file.  The real BufferedReader/Writer and
    TextIOWrapper are stacked on top by the façade."""

    def __init__(self, disk, path, mode, name):
        super().__init__()
        self._disk = disk
        self._path = path
        self._mode = mode
        self._pos = 0
        self.name = name
        self.mode = "rb" if mode == "r" else "wb"

    def readable(self):
        return self._mode == "r"

    def writable(self):
        return self._mode == "w"

    def seekable(self):
        return True

    def fileno(self):
        raise io.UnsupportedOperation("fileno")

    def isatty(self):
        return False

    def readinto(self, b):
        if self._mode != "r":
            raise io.UnsupportedOperation("not readable")
        d = self._disk
        data = d.files.get(self._path, b"") if not d.frozen else b""
        want = len(b)
        d.call(READ, self._path, want)
        avail = max(0, len(data) - self._pos)
        n = min(want, avail)
        if n > 1 and d.short_read_rng is not None:
            m = d.short_read_rng.randint(1, n)
            if m < n:
                d.buggify["short_read"] += 1
                n = m
        b[:n] = data[self._pos:self._pos + n]
        self._pos += n
        return n

    def write(self, b):
        if self._mode != "w":
            raise io.UnsupportedOperation("not writable")
        d = self._disk
        b = bytes(b)
        f = d.call(WRITE, self._path, len(b))
        n = len(b)
        if f is not None and f["kind"] == "short-write":
            # a torn write: a strict prefix is accepted, the next write fails
            if n > 1:
                n = 1 + (int(f.get("frac", 0)) % (n - 1))
                d.pending_write_fail = f
                d.fired.append(("short-write", WRITE, d.seq))
            else:
                d.fired.append(("short-write-degenerate", WRITE, d.seq))
                raise InjectedOSError(ERRNOS[f.get("errno", "EIO")], "injected", self._path)
        elif n > 1 and d.short_write_rng is not None:
            m = d.short_write_rng.randint(1, n)
            if m < n:
                d.buggify["short_write_retry"] += 1
                n = m
        buf = d.files.get(self._path)
        if buf is None:
            buf = d.files[self._path] = bytearray()
        if self._pos > len(buf):
            buf.extend(b"\0" * (self._pos - len(buf)))
        buf[self._pos:self._pos + n] = b[:n]
        self._pos += n
        return n

    def seek(self, offset, whence=0):
        d = self._disk
        d.call(SEEK, self._path, offset)
        if whence == 0:
            self._pos = offset
        elif whence == 1:
            self._pos += offset
        else:
            self._pos = len(d.files.get(self._path, b"")) + offset
        if self._pos < 0:
            self._pos = 0
        return self._pos

    def tell(self):
        return self._pos

    def truncate(self, size=None):
        raise io.UnsupportedOperation("truncate")

    def close(self):
        if self.closed:
            return
        d = self._disk
        try:
            d.call(CLOSE, self._path)
        finally:
            if self._mode == "w":
                c = d.open_handles.get(self._path, 0) - 1
                if c <= 0:
                    d.open_handles.pop(self._path, None)
                else:
                    d.open_handles[self._path] = c
            super().close()
