"""W-DISCOVER: directories, packs and assets on the simulated disk with a
listing-order adversary (C19, C20)."""
import posixpath

from msdparser import MSDParserError

from .. import gen, models, ops
from ..core import RunResult, HarnessError, LibraryMisbehaved, shash
from ..facades import Facade, make_disk

NATIVE_LIKE = ("native", "realos")
from ..models import (LoadError, ref_detect, ref_encoding, ref_load, universal_newlines,
                      DEFAULT_ENCODINGS)
from ..simdisk import SimDisk, SimKill, norm, LISTDIR

PROPS = ("C19", "C20")

SIMFILE_NAMES = ["song.sm", "song.ssc", "Song.SM", "x.Ssc", "a b.sm", "other.ssc", "z.sM",
                 "second.sm", "SECOND.SSC", "._song.ssc", "._x.sm", ".hidden.sm", "~song.ssc", "#1.sm",
                 "song .ssc", "Thumbs.db.sm",
                 # names that are not in a Unicode normal form (stored byte-exact on POSIX)
                 "Poke\u0301mon.sm", "Cafe\u0301.ssc", "\u212bngstr\u00f6m.sm", "\u1100\u1161.ssc"]
NEAR_MISS = ["x.sm.old", "x.ssca", "sm", "ssc", "x.smx", "song.sm~", "xsm", "x.ssc.bak", "notes.txt",
             "x.s", "a.sm.txt", "notes.\u017fm", "draft.\u00dfc", "DRAFT.\u00dfC", "todo.sm\n",
             "Backup.SSC\n", "x.sm ", "x.\u0455m", "SM", ".sm.", "x.ssc\r"]
IMAGES = ["banner.png", "songbn.JPG", "bn.png", "xbg.png", "background.jpeg", "cdtitle.gif",
          "jk_x.png", "jacket.bmp", "albumart.bmp", "x-cd.png", "x disc.png", "x title.png",
          "Banner.PNG", "mybanner2.png", "bnx.png", "bgm.png", "cd.png", "xjk_.png", "disc.png",
          "ALBUMART.JPG", "x-CD.gif", "BG.PNG", "cdtitle", "jk_banner.png", "AlbumArt-CD.jpg",
          "cdtitle-bg.gif", "banner-bg.png", "jacket-cd.png", "jk_bn.png", "..banner", "...bn", "..bg",
          "..-cd", ".banner", "cover.png ", "bn.png\t", "my banner.png ", "._banner.png",
          # a backslash is an ordinary file-name character here (POSIX, PyFilesystem)
          "art\\cover.png", "gfx\\bn.png", "sub\\banner.png",
          # lower() changes the length of these names (U+0130), others are not NFC
          "\u0130stanbul.png", "d\u0130sc.jpg", "Cafe\u0301.png", "cove\u0301r.jpg"]
AUDIO = ["x.ogg", "x.MP3", "song.wav", "a.oga", "x.ogg.bak", "mp3", "x.flac", "X.OGG", "song.ogg ",
         "..ogg", "._x.ogg", "\u0130ntro.ogg", "the\u0301me.mp3"]
OTHER = ["readme.txt", "notes", "thumbs.db", "x.lrc", "video.avi"]
SUBDIRS = ["sub", "Images", "extra"]
IMAGE_EXT = [".png", ".jpg", ".jpeg", ".gif", ".bmp"]
AUDIO_EXT = [".mp3", ".oga", ".ogg", ".wav"]
ASSET_KINDS = ["MUSIC", "BANNER", "BACKGROUND", "CDTITLE", "JACKET", "CDIMAGE"]
ATTR_OF = {"MUSIC": "music", "BANNER": "banner", "BACKGROUND": "background", "CDTITLE": "cdtitle",
           "JACKET": "jacket", "CDIMAGE": "cdimage", "DISC": "disc"}


# ------------------------------------------------------------------ generate
def _simfile_bytes(rng, fmt, assets, stray, enc):
    lines = []
    if stray == "before":
        lines.append("stray before")
    if fmt == "ssc":
        lines.append("#VERSION:0.83;")
    title = rng.choice(["t", "Title", "漢字", "café"]) if enc != "ascii" else "t"
    lines.append("#TITLE:%s;" % title)
    for k, v in assets:
        if v is None:
            lines.append("#%s;" % k)
        else:
            lines.append("#%s:%s;" % (k, gen.esc(v)))     # (a backslash in a name is written escaped)
    if stray == "between":
        lines.append("stray between")
    if rng.random() < 0.5:
        if fmt == "sm":
            lines.append("#NOTES:a:b:c:1:0,0:0000;")
        else:
            lines.append("#NOTEDATA:;\n#STEPSTYPE:a;\n#NOTES:0000;")
    text = "\n".join(lines) + "\n"
    codec = "utf-8" if enc == "ascii" else enc
    try:
        return text.encode(codec)
    except UnicodeEncodeError:
        return text.encode("utf-8")


def _case_variant(rng, name):
    if not name.isascii():
        # special case mappings change more than the letter case ('\u00df'.upper() == 'SS'
        # would turn a near-miss extension into a real one); lower() is the comparison the
        # property means ("compared case-insensitively"), also when it changes the length
        return name.lower() if "\u0130" in name else name
    r = rng.random()
    if r < 0.34:
        return name.upper()
    if r < 0.67:
        return name.lower()
    return name.swapcase()


def _gen_song_dir(rng, d, files, dirs, prop):
    """Populate one candidate song directory; returns nothing (mutates files/dirs)."""
    dirs.append(d)
    names = []
    nsm = gen.wchoice(rng, [(0, 2), (1, 5), (2, 1.5)])
    nssc = gen.wchoice(rng, [(0, 3), (1, 4), (2, 1.2)])
    sm_names = rng.sample([n for n in SIMFILE_NAMES if n.lower().endswith(".sm")], nsm)
    ssc_names = rng.sample([n for n in SIMFILE_NAMES if n.lower().endswith(".ssc")], nssc)
    lower_seen = set()
    for n in rng.sample(NEAR_MISS, rng.randint(0, 2)) + rng.sample(IMAGES, rng.randint(0, 4)) + \
            rng.sample(AUDIO, rng.randint(0, 2)) + rng.sample(OTHER, rng.randint(0, 1)):
        names.append(n)
    present = []
    for n in names:
        if n.lower() in lower_seen and rng.random() < 0.7:
            continue
        lower_seen.add(n.lower())
        present.append(n)
        files[d + "/" + n] = b"\x89data".hex()
    subs = rng.sample(SUBDIRS, rng.randint(0, 2))
    subfiles = {}
    for s in subs:
        dirs.append(d + "/" + s)
        subfiles[s] = []
        for n in rng.sample(IMAGES + AUDIO, rng.randint(0, 2)):
            files[d + "/" + s + "/" + n] = b"sub".hex()
            subfiles[s].append(n)
        if rng.random() < 0.25:
            # a nested song directory (must never be discovered by the pack)
            files[d + "/" + s + "/nested.sm"] = b"#TITLE:nested;\n".hex()
    # asset properties of the simfiles (entries whose names contain a line break are never
    # named by a simfile: a carriage return inside a value is subject to text-mode newline
    # translation on the native path, which is Python's, not the library's)
    present = [n for n in present if "\r" not in n and "\n" not in n]
    for fmt, fnames in (("sm", sm_names), ("ssc", ssc_names)):
        for fn in fnames:
            assets = []
            for kind in rng.sample(ASSET_KINDS, rng.randint(0, 4)):
                r = rng.random()
                pool = IMAGES if kind != "MUSIC" else AUDIO
                if r < 0.15:
                    v = ""
                elif r < 0.22:
                    v = None
                elif r < 0.5 and present:
                    v = rng.choice(present)                       # an existing entry, exact case
                elif r < 0.7 and present:
                    v = _case_variant(rng, rng.choice(present))   # existing entry, other case
                elif r < 0.8:
                    v = rng.choice(pool) + ".missing"             # missing file
                elif r < 0.9 and subs and subfiles[subs[0]]:
                    n = rng.choice(subfiles[subs[0]])
                    v = subs[0] + "/" + (n if rng.random() < 0.5 else _case_variant(rng, n))
                    if rng.random() < 0.15:
                        # Windows-style spelling: names no file here (the separator is '/')
                        v = v.replace("/", "\\")
                elif r < 0.93:
                    v = "nosuchdir/" + rng.choice(pool)           # file in a missing sub-directory
                elif r < 0.96 and present:
                    v = rng.choice(present) + "/" + rng.choice(pool)   # "sub-directory" is a regular file
                else:
                    v = rng.choice(pool)
                assets.append((kind, v))
            stray = gen.wchoice(rng, [(None, 6), ("before", 1), ("between", 1)])
            enc = gen.wchoice(rng, [("utf-8", 5), ("cp932", 1), ("cp1252", 1), ("ascii", 2)])
            files[d + "/" + fn] = _simfile_bytes(rng, fmt, assets, stray, enc).hex()


def generate(prop, rng, run, tier):
    files = {}
    dirs = ["/Songs"]
    pack_name = rng.choice(["Pack", "My Pack", "pack.v2", "P"])
    parent = "/Songs" if rng.random() < 0.8 else ""         # sometimes a top-level pack
    pack = parent + "/" + pack_name
    dirs.append(pack)
    nsongs = rng.randint(0, 4)
    song_names = rng.sample(["Alpha", "beta song", "Gamma.v2", "delta", "E",
                             # directories whose names look like something else
                             "Cover.png", "jacket.JPG", "intro.ogg", "Cafe\u0301", "\u212b"], nsongs)
    for s in song_names:
        _gen_song_dir(rng, pack + "/" + s, files, dirs, prop)
    if rng.random() < 0.4:
        dirs.append(pack + "/EmptyDir")
    # loose files in the pack (never discovered as songs) and pack images
    for n in rng.sample(["loose.sm", "loose.ssc", "readme.txt", "LOOSE.SM"], rng.randint(0, 2)):
        files[pack + "/" + n] = b"#TITLE:loose;\n".hex()
    for n in rng.sample(["a.png", "b.PNG", "pack.jpg", "x.jpeg", "y.gif", "z.bmp", "c.jpg",
                         "notimage.txt", "png", "q.png.bak"], rng.choice([0, 1, 2, 3, 3, 4, 5, 6])):
        files[pack + "/" + n] = b"img".hex()
    for ext in rng.sample(IMAGE_EXT + [".PNG", ".txt"], rng.randint(0, 2)):
        files[parent + "/" + pack_name + ext] = b"beside".hex()
    if rng.random() < 0.2:
        files[parent + "/" + pack_name.upper() + "X.png"] = b"other".hex()
    if rng.random() < 0.2:
        files[parent + "/" + pack_name + " 2.png"] = b"sibling".hex()
    cfg = {"facade": gen.wchoice(rng, [("simfs", 46), ("native", 46), ("memoryfs", 4), ("realos", 4)]),
           "listing": rng.choice(["sorted", "stable", "stable", "reshuffle", "reshuffle"]),
           "listing_seed": rng.randint(0, 10 ** 6),
           "strict": rng.random() < 0.5,
           "ignore_duplicate": rng.random() < 0.5,
           "encoding": gen.wchoice(rng, [(None, 6), ("utf-8", 1), ("cp932", 1), ("cp1252", 1)]),
           "spelling": gen.wchoice(rng, [(None, 5), ("trailing", 1), ("dslash", 1), ("dot", 1),
                                         ("rel", 1), ("cwd", 0.7)]),
           "assets_self_load": rng.random() < 0.3,
           "open_faults": rng.random() < 0.3}
    sc = {"workload": "discover", "property": prop, "config": cfg,
          "world": {"dirs": dirs, "files": files}, "pack": pack}
    if prop == "C19" and song_names and rng.random() < 0.15:
        # the tree changes while it is being scanned: right after the n-th listing another
        # simfile appears in (or disappears from) a song directory
        d = pack + "/" + rng.choice(song_names)
        ch = {"n": rng.randint(1, 7), "add": {}, "remove": []}
        for _ in range(rng.randint(1, 2)):
            n = rng.choice(["late.ssc", "late.sm", "LATE.SSC", "zz.sm"])
            ch["add"][d + "/" + n] = ("#TITLE:late %s;\n" % n).encode().hex()
        sc["change"] = ch
    if rng.random() < 0.4:
        # history: the same paths scanned again (fresh objects) after the tree changed
        files2 = dict(files)
        dirs2 = list(dirs)
        for _ in range(rng.randint(1, 4)):
            r = rng.random()
            keys = sorted(files2)
            if r < 0.3 and keys:
                del files2[rng.choice(keys)]
            elif r < 0.5 and keys:
                p = rng.choice(keys)
                d, _, n = p.rpartition("/")
                files2[d + "/" + _case_variant(rng, n)] = files2.pop(p)
            elif r < 0.8 and song_names:
                d = pack + "/" + rng.choice(song_names)
                n = rng.choice(SIMFILE_NAMES + IMAGES + AUDIO)
                files2[d + "/" + n] = (b"#TITLE:added;\n" if n.lower().endswith((".sm", ".ssc"))
                                       else b"added").hex()
            else:
                n = rng.choice(["new.png", "new.jpg", "N.GIF"])
                files2[pack + "/" + n] = b"img".hex()
        sc["world2"] = {"dirs": dirs2, "files": files2}
    return sc


def fixed_scenarios(prop):
    return []


# ------------------------------------------------------------------ reference
def _lower_ends(name, ext):
    return name.lower().endswith(ext)


def _stem(name):
    """os.path.splitext's root, by plain string operations."""
    i = name.rfind(".")
    if i <= 0 or set(name[:i]) == {"."}:
        return name
    return name[:i]


def pattern_matches(kind, name):
    """The documented default-asset patterns, by plain string operations."""
    s = _stem(name).lower()
    if kind == "BANNER":
        return "banner" in s or s.endswith("bn")
    if kind == "BACKGROUND":
        return "background" in s or s.endswith("bg")
    if kind == "CDTITLE":
        return "cdtitle" in s
    if kind == "JACKET":
        return s.startswith("jk_") or "jacket" in s or "albumart" in s
    if kind == "CDIMAGE":
        return s.endswith("-cd")
    if kind == "MUSIC":
        return any(_lower_ends(name, e) for e in AUDIO_EXT)
    raise HarnessError(kind)


class Tree:
    def __init__(self, world):
        self.files = {norm(p): bytes.fromhex(h) for p, h in world["files"].items()}
        self.dirs = {"/"}
        for d in world["dirs"]:
            d = norm(d)
            while d not in self.dirs:
                self.dirs.add(d)
                d = posixpath.dirname(d)
        for p in self.files:
            d = posixpath.dirname(p)
            while d not in self.dirs:
                self.dirs.add(d)
                d = posixpath.dirname(d)

    def entries(self, d):
        pre = d.rstrip("/") + "/"
        out = set()
        for p in list(self.files) + list(self.dirs):
            if p.startswith(pre) and p != d and "/" not in p[len(pre):]:
                out.add(p[len(pre):])
        return sorted(out)

    def isfile(self, p):
        return p in self.files

    def isdir(self, p):
        return p in self.dirs

    def simfiles_in(self, d):
        sm = [e for e in self.entries(d) if self.isfile(d + "/" + e) and _lower_ends(e, ".sm")]
        ssc = [e for e in self.entries(d) if self.isfile(d + "/" + e) and _lower_ends(e, ".ssc")]
        return sm, ssc


def expected_load(data, name, cfg, facade):
    """What opening this stored file must give under the run's loader options."""
    enc_opt = cfg.get("encoding")
    try_list = [enc_opt] if enc_opt else DEFAULT_ENCODINGS
    enc = ref_encoding(data, try_list)
    if enc is None:
        return LoadError("UnicodeDecodeError")
    text = data.decode(enc)
    if facade in NATIVE_LIKE:
        text = universal_newlines(text)
    strict = bool(cfg.get("strict", True))
    kind = ref_detect(name, text, strict)
    if isinstance(kind, LoadError):
        return kind
    return ref_load(text, kind, strict)


def _spell(path, how):
    if how == "trailing":
        return path + "/"
    if how == "dslash":
        i = path.rfind("/")
        return path[:i] + "//" + path[i + 1:] if i > 0 else path
    if how == "dot":
        i = path.rfind("/")
        return path[:i] + "/./" + path[i + 1:]
    if how == "rel":
        return path.lstrip("/")
    return path


def _load_kwargs(cfg):
    kw = {"strict": bool(cfg.get("strict", True))}
    if cfg.get("encoding"):
        kw["encoding"] = cfg["encoding"]
    return kw


def _same_loaded(real, exp, lib):
    """Compare a loaded simfile with the reference (key-only multi-value lenient)."""
    gp = ops.real_plain(real, lib)
    if gp == exp.plain():
        return True
    return False


def _outcome_of_open(fn):
    try:
        return ("ok", fn())
    except (HarnessError, LibraryMisbehaved):
        raise
    except Exception as e:      # whatever the library lets escape is an outcome to judge
        return ("exc", type(e).__name__)


def _listing_seen(disk, d, since):
    for seq, p, ents in disk.listings[since:]:
        if p == d:
            return ents
    return None


# ------------------------------------------------------------------------ C19
def check_c19(sc, res):
    lib = ops.lib()
    sfm = lib.simfile
    from simfile.dir import SimfileDirectory, SimfilePack, DuplicateSimfileError
    cfg = sc["config"]
    P = "C19"
    facade = cfg["facade"]
    tree = Tree(sc["world"])
    pack = norm(sc["pack"])
    disk = make_disk(sc["world"], {"listing": cfg.get("listing", "sorted"),
                                   "listing_seed": cfg.get("listing_seed", 0), "short_reads": 99},
                     None, facade)
    kw_load = _load_kwargs(cfg)
    ign = bool(cfg.get("ignore_duplicate"))
    spelling = cfg.get("spelling")
    with Facade(facade, disk, relative=(spelling in ("rel", "cwd"))) as fa:
        def npath(p):
            if not isinstance(p, str):
                raise LibraryMisbehaved("path-is-not-a-string", got=repr(p))
            return norm(fa.unroot(fa.normpath(p)))

        def judge_loaded(label, got_outcome, d, chosen_entry, options=None):
            """got_outcome: ('ok', simfile) | ('exc', name).  Compare with the reference
            load of the chosen file."""
            path = d + "/" + chosen_entry
            exp = expected_load(tree.files[path], chosen_entry, options or cfg, facade)
            if isinstance(exp, LoadError):
                if got_outcome[0] != "exc" or got_outcome[1] != exp.exc:
                    res.violate(P, "load-outcome-differs", via=label, dir=d, file=chosen_entry,
                                expected=repr(exp), got=repr(got_outcome)[:200],
                                options=kw_load)
                    return False
                res.stats["probe:expected-load-error:" + exp.exc] += 1
                return True
            if got_outcome[0] != "ok":
                res.violate(P, "load-raised", via=label, dir=d, file=chosen_entry,
                            got=got_outcome[1], options=kw_load)
                return False
            sf = got_outcome[1]
            want_cls = lib.SSCSimfile if exp.kind == "ssc" else lib.SMSimfile
            ok_loaded = _same_loaded(sf, exp, lib)
            if not ok_loaded and facade in NATIVE_LIKE and b"\r" in tree.files[path]:
                # line breaks translated by text mode or kept as stored: both accepted
                exp_raw = expected_load(tree.files[path], chosen_entry, options or cfg, "as-stored")
                ok_loaded = not isinstance(exp_raw, LoadError) and _same_loaded(sf, exp_raw, lib)
            if type(sf) is not want_cls or not ok_loaded:
                res.violate(P, "loaded-simfile-differs", via=label, dir=d, file=chosen_entry,
                            got=ops.real_plain(sf, lib), expected=exp.plain(), options=kw_load)
                return False
            return True

        # ---------------- every directory of the tree as a simfile directory
        all_dirs = sorted(d for d in tree.dirs if d != "/")
        dir_expect = {}
        kept_dirs = []
        for d in all_dirs:
            sm, ssc = tree.simfiles_in(d)
            dup = len(sm) > 1 or len(ssc) > 1
            arg = fa.p(_spell(d, spelling))
            mark = len(disk.listings)
            try:
                sd = SimfileDirectory(arg, ignore_duplicate=ign, **fa.kw)
                err = None
            except DuplicateSimfileError as e:
                sd, err = None, e
            res.evaluations += 1
            if dup and not ign:
                if err is None:
                    res.violate(P, "duplicate-not-reported", dir=d, sm=sm, ssc=ssc)
                    return
                res.stats["probe:duplicate-error"] += 1
                dir_expect[d] = ("dup", None, None)
                continue
            if err is not None:
                res.violate(P, "duplicate-error-although-" + ("ignored" if ign else "none"),
                            dir=d, sm=sm, ssc=ssc)
                return
            listing = _listing_seen(disk, d, mark)
            if listing is None:
                # The object obtained the entries without listdir() (e.g. through the
                # filesystem's own scandir): the order it saw is unknown to the simulator, so
                # with duplicates ignored any candidate of the kind is admissible.
                res.stats["probe:directory-read-without-listdir"] += 1

            def first_listed(cands, got):
                if listing is None:
                    if got is not None and isinstance(got, str) and \
                            posixpath.basename(npath(got)) in cands:
                        return posixpath.basename(npath(got))
                    return sorted(cands)[0]
                for e in listing:
                    if e in cands:
                        return e
                return None
            want_sm = first_listed(sm, sd.sm_path) if sm else None
            want_ssc = first_listed(ssc, sd.ssc_path) if ssc else None
            if dup:
                res.stats["probe:duplicate-ignored-first-listed-wins"] += 1
            for what, got, want in (("sm_path", sd.sm_path, want_sm), ("ssc_path", sd.ssc_path, want_ssc)):
                if want is None:
                    if got is not None:
                        res.violate(P, "reports-simfile-that-is-not-there", dir=d, what=what, got=got,
                                    entries=tree.entries(d))
                        return
                else:
                    if got is None:
                        res.violate(P, "misses-simfile", dir=d, what=what, expected=want,
                                    entries=tree.entries(d))
                        return
                    if npath(got) != d + "/" + want:
                        res.violate(P, "wrong-simfile-path", dir=d, what=what, got=got,
                                    expected=d + "/" + want, listing=listing, ignore_duplicate=ign)
                        return
            chosen = want_ssc or want_sm
            want_path = (d + "/" + chosen) if chosen else None
            if (sd.simfile_path is None) != (want_path is None) or \
                    (want_path and npath(sd.simfile_path) != want_path):
                res.violate(P, "simfile_path-not-ssc-preferred", dir=d, got=sd.simfile_path,
                            expected=want_path)
                return
            dir_expect[d] = ("ok", chosen, listing)
            kept_dirs.append((d, sd, sd.sm_path, sd.ssc_path))
            # open()
            if chosen is None:
                try:
                    sd.open(**kw_load)
                    res.violate(P, "open-without-simfile-did-not-raise", dir=d)
                    return
                except FileNotFoundError:
                    res.stats["probe:open-filenotfound"] += 1
                # opendir on a directory without simfiles
                try:
                    sfm.opendir(arg, **dict(fa.kw, **kw_load))
                    res.violate(P, "opendir-without-simfile-did-not-raise", dir=d)
                    return
                except FileNotFoundError:
                    pass
                res.note("dir-empty", facade, len(tree.entries(d)))
                continue
            if not judge_loaded("SimfileDirectory.open", _outcome_of_open(lambda: sd.open(**kw_load)),
                                d, chosen):
                return
            if want_ssc and want_sm:
                res.stats["probe:ssc-preferred-over-sm"] += 1
            # the same directory object opened twice with no options at all; what the first call
            # handed out is edited in between: the second call must give the stored simfile again
            exp_default = expected_load(tree.files[d + "/" + chosen], chosen,
                                        {"strict": True, "encoding": None}, facade)
            if not isinstance(exp_default, LoadError):
                oc1 = _outcome_of_open(lambda: sd.open())
                if oc1[0] == "ok":
                    try:
                        oc1[1]["TITLE"] = "edited by the caller"
                        oc1[1]["ZZ"] = "1"
                    except Exception:
                        pass
                oc2 = _outcome_of_open(lambda: sd.open())
                res.evaluations += 1
                if not judge_loaded("SimfileDirectory.open() twice", oc2, d, chosen,
                                    {"strict": True, "encoding": None}):
                    return
                res.stats["probe:opened-twice-without-options"] += 1
            # a storage error at the j-th call of open(): it may fail, it must never answer
            # with another simfile (every fault point of this open is enumerated)
            if cfg.get("open_faults") and isinstance(disk, SimDisk):
                seq0 = disk.seq
                _outcome_of_open(lambda: sd.open(**kw_load))
                ncalls = min(disk.seq - seq0, 14)
                for j in range(1, ncalls + 1):
                    for errno_ in ("EIO", "EACCES"):
                        k = disk.seq + j
                        disk.faults[k] = {"kind": "err", "k": k, "errno": errno_}
                        nfired = len(disk.fired)
                        oc = _outcome_of_open(lambda: sd.open(**kw_load))
                        disk.faults.pop(k, None)
                        res.evaluations += 1
                        if len(disk.fired) == nfired:
                            continue
                        res.stats["fault:err-during-open"] += 1
                        if oc[0] == "ok":
                            if not judge_loaded("open-under-fault", oc, d, chosen):
                                for v in res.violations:
                                    v.detail.setdefault("fault", {"j": j, "errno": errno_})
                                return
            # opendir: same simfile and path (stable listing needed when duplicates are ignored)
            if not dup:
                oc = _outcome_of_open(lambda: sfm.opendir(arg, **dict(fa.kw, **kw_load)))
                got_sf = ("ok", oc[1][0]) if oc[0] == "ok" else oc
                if not judge_loaded("opendir", got_sf, d, chosen):
                    return
                if oc[0] == "ok" and npath(oc[1][1]) != want_path:
                    res.violate(P, "opendir-wrong-path", dir=d, got=oc[1][1], expected=want_path)
                    return
            res.note("dir", facade, cfg.get("listing"), len(sm), len(ssc), ign, kw_load["strict"],
                     cfg.get("encoding"), spelling,
                     shash(tuple(e.lower().rpartition(".")[2] for e in tree.entries(d))) & 0xffff)
        # ---------------- the pack
        parg = fa.p(_spell(pack, spelling))
        want_dirs = set()
        for e in tree.entries(pack):
            sub = pack + "/" + e
            if tree.isdir(sub):
                sm, ssc = tree.simfiles_in(sub)
                if sm or ssc:
                    want_dirs.add(sub)
        try:
            sp = SimfilePack(parg, ignore_duplicate=ign, **fa.kw)
        except Exception as e:
            res.violate(P, "pack-constructor-raised", exc=repr(e))
            return
        res.evaluations += 1
        got_dirs = [npath(p) for p in sp.simfile_dir_paths]
        if sorted(got_dirs) != sorted(want_dirs):
            res.violate(P, "pack-lists-wrong-directories", got=sorted(got_dirs),
                        expected=sorted(want_dirs), entries=tree.entries(pack))
            return
        if sp.name != posixpath.basename(pack):
            res.violate(P, "pack-name", got=sp.name, expected=posixpath.basename(pack))
            return
        if any(tree.isfile(pack + "/" + e) and (_lower_ends(e, ".sm") or _lower_ends(e, ".ssc"))
               for e in tree.entries(pack)):
            res.stats["probe:loose-simfile-in-pack"] += 1
        if any(tree.isfile(p) and "/" in p[len(pack) + 1:].partition("/")[2]
               and (_lower_ends(p, ".sm") or _lower_ends(p, ".ssc")) for p in tree.files
               if p.startswith(pack + "/")):
            res.stats["probe:nested-song-directory"] += 1
        has_dup = any(len(x) > 1 for d in want_dirs for x in tree.simfiles_in(d))

        def collect(label, it, with_path):
            """Drain a pack iterator; returns list of (outcome, path-or-None) or None
            after reporting a violation.  Iteration order is not asserted."""
            out = []
            n = 0
            while True:
                mark = len(disk.listings)
                try:
                    item = next(it)
                except StopIteration:
                    break
                except (HarnessError, LibraryMisbehaved):
                    raise
                except Exception as e:
                    out.append((("exc", type(e).__name__), None, mark))
                    break
                n += 1
                if n > 50:
                    raise HarnessError("runaway iterator")
                if with_path:
                    out.append((("ok", item[0]), item[1], mark))
                else:
                    out.append((("ok", item), None, mark))
            return out

        def expected_for(d, mark):
            """Expected outcome for directory d judged against the listing its
            SimfileDirectory object received (the last listing of d since mark)."""
            sm, ssc = tree.simfiles_in(d)
            dup = len(sm) > 1 or len(ssc) > 1
            if dup and not ign_here[0]:
                return ("dup", None)
            listing = None
            for seq, p, ents in disk.listings[mark:]:
                if p == d:
                    listing = ents
            if listing is None:
                return ("nolisting", None)
            fs_ = [e for e in listing if e in ssc] or [e for e in listing if e in sm]
            return ("ok", fs_[0])

        ign_here = [ign]
        for label, make, with_path in (
                ("SimfilePack.simfiles", lambda: sp.simfiles(**kw_load), False),
                ("openpack", lambda: sfm.openpack(parg, **dict(fa.kw, **kw_load)), True)):
            # openpack has no ignore_duplicate parameter
            ign_here[0] = ign if label != "openpack" else False
            got = collect(label, make(), with_path)
            res.evaluations += 1
            order = [npath(p) for p in sp.simfile_dir_paths]
            seen_dirs = []
            for idx, (oc, path, mark) in enumerate(got):
                if with_path and oc[0] == "ok":
                    d = posixpath.dirname(npath(path))
                    if d not in want_dirs:
                        res.violate(P, "openpack-yields-foreign-path", got=path,
                                    expected=sorted(want_dirs))
                        return
                elif not with_path:
                    if idx >= len(order):
                        res.violate(P, "pack-iteration-too-many-items", via=label)
                        return
                    d = order[idx]
                else:
                    # openpack ended with an exception: some not yet seen directory must
                    # explain it
                    d = None
                    for cand in sorted(want_dirs - set(seen_dirs)):
                        kind, chosen = expected_for(cand, mark)
                        if kind == "dup" and oc[1] == "DuplicateSimfileError":
                            d = cand
                        elif kind == "ok":
                            exp = expected_load(tree.files[cand + "/" + chosen], chosen, cfg, facade)
                            if isinstance(exp, LoadError) and exp.exc == oc[1]:
                                d = cand
                        elif kind == "nolisting":
                            sm_c, ssc_c = tree.simfiles_in(cand)
                            for chosen in (ssc_c or sm_c):
                                exp = expected_load(tree.files[cand + "/" + chosen], chosen, cfg, facade)
                                if isinstance(exp, LoadError) and exp.exc == oc[1]:
                                    d = cand
                        if d:
                            break
                    if d is None:
                        res.violate(P, "openpack-raised-unexplained", got=oc[1], options=kw_load,
                                    remaining=sorted(want_dirs - set(seen_dirs)))
                        return
                    seen_dirs.append(d)
                    continue
                seen_dirs.append(d)
                kind, chosen = expected_for(d, mark)
                if kind == "nolisting":
                    # The object did not list its directory during this step (it must have
                    # obtained the entries some other way).  Without the listing it received
                    # only the listing-independent part can be judged: the simfile must be
                    # one of the directory's candidates of the preferred kind.
                    sm_c, ssc_c = tree.simfiles_in(d)
                    cands = ssc_c or sm_c
                    res.stats["probe:no-listing-in-iteration-step"] += 1
                    if with_path and oc[0] == "ok":
                        chosen = posixpath.basename(npath(path))
                        if chosen not in cands:
                            res.violate(P, "openpack-wrong-path", dir=d, got=path, expected=cands)
                            return
                        if not judge_loaded(label, oc, d, chosen):
                            return
                    elif len(cands) == 1:
                        if not judge_loaded(label, oc, d, cands[0]):
                            return
                    continue
                if kind == "dup":
                    if oc != ("exc", "DuplicateSimfileError"):
                        res.violate(P, "pack-iteration-duplicate-not-reported", via=label, dir=d,
                                    got=repr(oc)[:100])
                        return
                    continue
                if oc == ("exc", "DuplicateSimfileError"):
                    res.violate(P, "pack-iteration-duplicate-error-unexpected", via=label, dir=d)
                    return
                if not judge_loaded(label, oc, d, chosen):
                    return
                if with_path and oc[0] == "ok" and npath(path) != d + "/" + chosen:
                    res.violate(P, "openpack-wrong-path", dir=d, got=path, expected=d + "/" + chosen)
                    return
            finished = not got or got[-1][0][0] == "ok"
            if finished and sorted(seen_dirs) != sorted(want_dirs):
                res.violate(P, "pack-iteration-wrong-directories", via=label, got=sorted(seen_dirs),
                            expected=sorted(want_dirs))
                return
            if finished and want_dirs:
                res.stats["probe:pack-iterated:" + label] += 1
            if any(oc[0] == "ok" for oc, _, _ in got) and not kw_load["strict"]:
                res.stats["probe:lenient-option-reached:" + label] += 1
        # the same pack object once more, after the iterations above (one of which may have
        # died half-way) and after an iteration that is abandoned at its first item
        if not has_dup or ign:
            try:
                peek = sp.simfile_dirs()
                next(peek, None)
                del peek
                again = sorted(npath(x.simfile_dir) for x in sp.simfile_dirs())
            except Exception as e:
                res.violate(P, "pack-iterated-again-raised", exc=repr(e))
                return
            if again != sorted(want_dirs):
                res.violate(P, "pack-iterated-again-lists-other-directories", got=again,
                            expected=sorted(want_dirs))
                return
            res.stats["probe:pack-object-iterated-again"] += 1
        for d, sd, smp, sscp in kept_dirs:
            if sd.sm_path != smp or sd.ssc_path != sscp:
                res.violate(P, "directory-object-changed-later", dir=d, before=[smp, sscp],
                            after=[sd.sm_path, sd.ssc_path])
                return
        res.note("pack", facade, cfg.get("listing"), len(want_dirs), ign, kw_load["strict"],
                 cfg.get("encoding"), spelling, has_dup)
    res.steps += len(disk.events) + len(disk.listings)
    res.stats["probe:facade:" + facade] += 1
    res.stats["buggify:listing-" + str(cfg.get("listing", "sorted"))] += len(disk.listings)
    res.log("c19", disk.log_digest())


# ------------------------------------------------------------------------ C20
def check_c20(sc, res):
    lib = ops.lib()
    sfm = lib.simfile
    from simfile.dir import SimfileDirectory, SimfilePack, DuplicateSimfileError
    from simfile.assets import Assets
    cfg = sc["config"]
    P = "C20"
    facade = cfg["facade"]
    tree = Tree(sc["world"])
    pack = norm(sc["pack"])
    disk = make_disk(sc["world"], {"listing": cfg.get("listing", "sorted"),
                                   "listing_seed": cfg.get("listing_seed", 0)}, None, facade)
    spelling = cfg.get("spelling")
    with Facade(facade, disk, relative=(spelling in ("rel", "cwd"))) as fa:
        def npath(p):
            if not isinstance(p, str):
                raise LibraryMisbehaved("path-is-not-a-string", got=repr(p))
            return norm(fa.unroot(fa.normpath(p)))

        kept = []
        for d in sorted(x for x in tree.dirs if x.startswith(pack + "/") and
                        x.count("/") == pack.count("/") + 1):
            sm, ssc = tree.simfiles_in(d)
            if len(sm) > 1 or len(ssc) > 1 or not (sm or ssc):
                continue
            chosen = (ssc or sm)[0]
            data = tree.files[d + "/" + chosen]
            lcfg = {"strict": False, "encoding": None}
            exp = expected_load(data, chosen, lcfg, facade)
            if isinstance(exp, LoadError):
                continue
            arg = fa.p(_spell(d, spelling))
            if spelling == "cwd" and fa.native_like:
                # the song directory is the working directory and is named "." (or a
                # spelling of it); answers come back relative to it
                fa.chdir(d)
                arg = ["." , "./", "x/..", "./."][cfg.get("listing_seed", 0) % 4]
                if arg == "x/..":
                    arg = "."  if not any(tree.isdir(d + "/" + e) for e in tree.entries(d)) else \
                        [e for e in tree.entries(d) if tree.isdir(d + "/" + e)][0] + "/.."
                res.stats["probe:directory-named-as-cwd"] += 1
            try:
                if cfg.get("assets_self_load"):
                    assets = Assets(arg, strict=False, **fa.kw)
                    via = "self-load"
                elif cfg.get("listing_seed", 0) % 3 == 0:
                    assets = SimfileDirectory(arg, **fa.kw).assets() \
                        if expected_load(data, chosen, {"strict": True}, facade).__class__ is not LoadError \
                        else Assets(arg, strict=False, **fa.kw)
                    via = "dir.assets"
                else:
                    sf = sfm.open(fa.p(d + "/" + chosen), strict=False, **fa.kw)
                    assets = Assets(arg, simfile=sf, **fa.kw)
                    via = "explicit"
            except Exception as e:
                res.violate(P, "assets-constructor-raised", dir=d, exc=repr(e))
                return
            res.evaluations += 1
            entries = tree.entries(d)
            first_answers = {}
            kept.append((d, assets, first_answers))
            for kind in ASSET_KINDS:
                attr = ATTR_OF[kind]
                specified = exp.get(kind) if exp.has(kind) else None
                admissible = None
                why = "pattern"
                if specified:
                    full = posixpath.normpath(d + "/" + specified)
                    cdir, fname = posixpath.split(d + "/" + specified)
                    cdir_n = posixpath.normpath(cdir)
                    if tree.isdir(cdir_n):
                        hits = [e for e in tree.entries(cdir_n) if e.lower() == fname.lower()
                                and tree.isfile(cdir_n + "/" + e)]
                        if hits:
                            admissible = {cdir_n + "/" + e for e in hits}
                            why = "specified"
                if admissible is None:
                    admissible = {d + "/" + e for e in entries if pattern_matches(kind, e)}
                try:
                    a1 = getattr(assets, attr)
                    # between the two questions the directory is listed again by somebody
                    # else (reshuffle mode gives a different order every time)
                    if facade in ("simfs", "memoryfs"):
                        fa.fs.listdir(arg)
                    a2 = getattr(assets, attr)
                except Exception as e:
                    res.violate(P, "asset-lookup-raised", dir=d, asset=kind, exc=repr(e),
                                specified=specified)
                    return
                res.evaluations += 1
                if a1 != a2:
                    res.violate(P, "asking-again-gives-another-answer", dir=d, asset=kind,
                                first=a1, second=a2)
                    return
                first_answers[kind] = a1
                if a1 is None:
                    if admissible:
                        res.violate(P, "asset-not-found", dir=d, asset=kind, specified=specified,
                                    admissible=sorted(admissible), why=why, entries=entries)
                        return
                    res.stats["probe:asset-none"] += 1
                else:
                    n1 = npath(a1)
                    if not (tree.isfile(n1) or tree.isdir(n1)):
                        res.violate(P, "asset-path-does-not-exist", dir=d, asset=kind, got=a1,
                                    specified=specified)
                        return
                    if n1 not in admissible:
                        res.violate(P, "asset-not-admissible", dir=d, asset=kind, got=a1,
                                    specified=specified, admissible=sorted(admissible), why=why,
                                    entries=entries)
                        return
                    if a1 != fa.normpath(a1):  # noqa
                        res.violate(P, "asset-path-not-normalised", dir=d, asset=kind, got=a1)
                        return
                    res.stats["probe:asset-" + why] += 1
                    if why == "specified" and specified and "/" in specified:
                        res.stats["probe:asset-in-subdirectory"] += 1
                    if why == "specified" and posixpath.basename(n1) != posixpath.basename(specified):
                        res.stats["probe:asset-specified-other-case"] += 1
                    if len(admissible) > 1:
                        res.stats["probe:several-admissible"] += 1
                res.note("asset", facade, kind, why, a1 is None, len(admissible), via,
                         cfg.get("listing"), spelling, bool(specified) and "/" in (specified or ""),
                         shash(tuple(sorted(e.lower() for e in entries))) & 0xffff)
        # asking again after every other directory has been looked at (objects of
        # different directories alive at the same time must not influence each other)
        for d, assets, first_answers in kept:
            for kind, a1 in first_answers.items():
                try:
                    a3 = getattr(assets, ATTR_OF[kind])
                except Exception as e:
                    res.violate(P, "asset-lookup-raised", dir=d, asset=kind, exc=repr(e), late=True)
                    return
                if a3 != a1:
                    res.violate(P, "asking-again-gives-another-answer", dir=d, asset=kind,
                                first=a1, second=a3, late=True)
                    return
        if len(kept) > 1:
            res.stats["probe:several-asset-objects-alive"] += 1
        # ---------------- pack banner
        if any(tree.isdir(pack + "/" + e) and any(_lower_ends(e, x) for x in IMAGE_EXT)
               for e in tree.entries(pack)):
            # a *directory* named like an image: the quantifier has "pack directories with
            # 0..n images inside and beside them" - not judged either way (observation: the
            # library does not test that a matching entry is a file)
            res.stats["outside-domain:image-named-directory-in-pack"] += 1
            res.steps += len(disk.events) + len(disk.listings)
            res.log("c20", disk.log_digest())
            return
        parg = fa.p(_spell(pack, spelling))
        try:
            sp = SimfilePack(parg, **fa.kw)
            b1 = sp.banner()
            b2 = sp.banner()
        except Exception as e:
            res.violate(P, "pack-banner-raised", exc=repr(e))
            return
        res.evaluations += 1
        inside = None
        for ext in IMAGE_EXT:
            c = [e for e in tree.entries(pack) if _lower_ends(e, ext) and tree.isfile(pack + "/" + e)]
            if c:
                inside = {pack + "/" + e for e in c}
                break
        if inside is not None:
            admissible = inside
            why = "inside"
        else:
            admissible = set()
            why = "beside"
            for ext in IMAGE_EXT:
                p = posixpath.join(posixpath.dirname(pack), posixpath.basename(pack) + ext)
                if tree.isfile(p):
                    admissible = {p}
                    break
            if not admissible:
                why = "none"
        if b1 is None:
            if admissible:
                res.violate(P, "pack-banner-not-found", admissible=sorted(admissible), why=why,
                            entries=tree.entries(pack))
                return
        else:
            if npath(b1) not in admissible:
                res.violate(P, "pack-banner-not-admissible", got=b1, admissible=sorted(admissible),
                            why=why, entries=tree.entries(pack))
                return
        if cfg.get("listing") != "reshuffle" and b1 != b2:
            res.violate(P, "pack-banner-unstable", first=b1, second=b2)
            return
        res.stats["probe:pack-banner-" + why] += 1
        res.note("packbanner", facade, why, len(admissible), cfg.get("listing"), spelling)
    res.steps += len(disk.events) + len(disk.listings)
    res.stats["probe:facade:" + facade] += 1
    res.stats["buggify:listing-" + str(cfg.get("listing", "sorted"))] += len(disk.listings)
    res.log("c20", disk.log_digest())


def check_c19_changing(sc, res):
    """The tree changes between two listings.  Nothing is asserted about *which*
    simfiles are found; only that what opendir/openpack hand out is consistent: the
    simfile of a pair is the load of the file at the pair's path."""
    lib = ops.lib()
    sfm = lib.simfile
    cfg = sc["config"]
    P = "C19"
    facade = cfg["facade"] if cfg["facade"] in ("simfs", "native") else "simfs"
    pack = norm(sc["pack"])
    kw_load = {"strict": False}
    for which in ("openpack", "opendir"):
        disk = SimDisk(sc["world"], {"listing": cfg.get("listing", "sorted"),
                                     "listing_seed": cfg.get("listing_seed", 0),
                                     "change_after_listing": sc["change"]})
        with Facade(facade, disk) as fa:
            pairs = []
            try:
                if which == "openpack":
                    for item in sfm.openpack(fa.p(pack), **dict(fa.kw, **kw_load)):
                        pairs.append(item)
                else:
                    d = posixpath.dirname(norm(sorted(sc["change"]["add"])[0]))
                    from simfile.dir import SimfilePack
                    SimfilePack(fa.p(pack), **fa.kw)          # a scan of the pack first
                    pairs.append(sfm.opendir(fa.p(d), **dict(fa.kw, **kw_load)))
            except (HarnessError, LibraryMisbehaved):
                raise
            except Exception:
                res.stats["probe:changing-tree-raised"] += 1
            res.evaluations += 1
            for sf, path in pairs:
                if not isinstance(path, str):
                    raise LibraryMisbehaved("path-is-not-a-string", got=repr(path))
                q = norm(fa.unroot(fa.normpath(path)))
                if q not in disk.files:
                    res.violate(P, "yielded-path-does-not-exist", via=which, path=path)
                    return
                exp = expected_load(bytes(disk.files[q]), posixpath.basename(q),
                                    {"strict": False, "encoding": None}, facade)
                if isinstance(exp, LoadError):
                    continue
                want_cls = lib.SSCSimfile if exp.kind == "ssc" else lib.SMSimfile
                if type(sf) is not want_cls or ops.real_plain(sf, lib) != exp.plain():
                    res.violate(P, "yielded-simfile-is-not-the-file-at-the-yielded-path", via=which,
                                path=path, got=ops.real_plain(sf, lib), expected=exp.plain(),
                                change=sc["change"])
                    return
            if any(f[0] == "tree-changed" for f in disk.fired):
                res.stats["fault:tree-changed-during-scan"] += 1
                res.note("changing", which, facade, sc["change"]["n"], len(pairs))


def execute(sc):
    res = RunResult()
    if sc["property"] == "C19" and sc.get("change"):
        check_c19_changing(sc, res)
        if res.violations:
            return res
    check = {"C19": check_c19, "C20": check_c20}.get(sc["property"])
    if check is None:
        raise HarnessError("discover workload serves C19/C20")
    check(sc, res)
    if sc.get("world2") and not res.violations:
        sc2 = dict(sc)
        sc2["world"] = sc["world2"]
        check(sc2, res)
        for v in res.violations:
            v.detail["phase"] = "rescan-after-change"
        res.stats["probe:rescanned-after-tree-changed"] += 1
    res.log(sc["property"], [v.sig() for v in res.violations], sorted(res.stats.items()))
    return res
