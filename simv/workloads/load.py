"""W-LOAD: loading through every entry point and stream behaviour (C03) and
the load / save / restart / load / save history on damaged stored files (C04)."""
import io
import os
import re
import typing

from msdparser import MSDParserError
import fs.errors as fs_errors

from .. import gen, models, ops
from ..core import RunResult, HarnessError, shash
from ..facades import Facade, make_disk
from ..models import (LoadError, RefSMChart, ref_detect, ref_load, ref_load_sscchart,
                      strip_stray_text, universal_newlines, ref_emit, simfile_from_plain,
                      ref_encoding, DEFAULT_ENCODINGS)
from ..simdisk import SimDisk
from .edit import classify_gap, corpus_text, CORPUS, _trim

PROPS = ("C03", "C04")

KEYS = ["TITLE", "ARTIST", "BPMS", "STOPS", "FREEZES", "ATTACKS", "DISPLAYBPM", "BGCHANGES",
        "ANIMATIONS", "OFFSET", "CREDIT", "X", "FOO", "MUSIC", "BANNER", "NOTES2", "VERSION2",
        "XVERSION", "ATTACKS2", "ATTAC\u212aS",
        # keys whose upper() is longer than the key / not in a Unicode normal form
        "\u0390", "T\u03b0", "\u1fd2A", "stra\u00dfe", "\ufb01x", "\u0149"]
CHART_KEYS = ["STEPSTYPE", "DESCRIPTION", "DIFFICULTY", "METER", "RADARVALUES", "CREDIT", "ATTACKS",
              "DISPLAYBPM", "BPMS", "CHARTNAME", "X", "NOTESKIN", "NOTES3", "NOTESCOUNT", "XNOTES",
              "NOTEDATA2"]


# ------------------------------------------------------------------ generate
def _case(rng, k):
    r = rng.random()
    if rng.random() < 0.04:
        # letter-case variants outside ASCII: characters whose upper() is an ASCII letter
        # (dotless i -> I, long s -> S); keys are upper-cased with str.upper()
        k = "".join({"I": "\u0131", "S": "\u017f"}.get(c, c) if rng.random() < 0.5 else c for c in k)
        return k if rng.random() < 0.5 else k.lower()
    if r < 0.6:
        return k
    if r < 0.8:
        return k.lower()
    return "".join(c.lower() if rng.random() < 0.5 else c for c in k)


def _val(rng):
    r = rng.random()
    if r < 0.15:
        return ""
    if r < 0.2:
        return rng.choice(gen.VALUE_LIKE).replace(":", "\\:").replace("#", "\\#")
    pool = ["a", "B", "0", "1", " ", "=", ",", ".", "\\:", "\\;", "\\\\", "\\#", "\\/", "#", "/",
            "\n", "\r\n", "\t", "\u00e9", "\u3042", "x//c\n", "\\//",
            # text that is not in a Unicode normal form, also reached through an escape
            "e\u0301", "e\\\u0301", "\u0301", "\u212b", "\u2126", "\u1100\u1161", "\ufb01",
            # lines made of blanks only inside a value, indented continuation lines
            "\n \n", "\n\t\n", "\n    x\n    y\n", "  \n"]
    n = rng.randint(1, 7)
    return "".join(rng.choice(pool) for _ in range(n))


def _nl(rng, crlf):
    return "\r\n" if crlf else "\n"


def gen_msd_text(rng, fmt=None):
    """An MSD text assembled from the pieces the C03 quantifier lists."""
    fmt = fmt or rng.choice(["sm", "ssc", "any"])
    crlf = rng.random() < 0.2
    nl = _nl(rng, crlf)
    stray_rate = rng.choice([0.0, 0.0, 0.15, 0.4])
    parts = []

    def stray():
        if rng.random() < stray_rate:
            parts.append(rng.choice(["junk", "x", ";", ":", "stray text" + nl, "\\", "// c" + nl,
                                     "0000" + nl, ",", "a:b;" + nl]))
            if parts[-1] == "\\":
                parts.append("q")

    def param(key, comps, keyonly=False):
        s = "#" + key
        if not keyonly:
            for c in comps:
                s += ":" + c
        r = rng.random()
        if r < 0.85:
            s += ";"
        elif r < 0.93:
            s += ""           # missing semicolon
        else:
            s += ";;"
        parts.append(s)
        parts.append(nl if rng.random() < 0.9 else "")
        if rng.random() < 0.05:
            parts.append("// comment" + nl)

    if rng.random() < 0.08:
        parts.append("\ufeff")
    stray()
    if fmt == "ssc" or (fmt == "any" and rng.random() < 0.4):
        if rng.random() < 0.85:
            param(_case(rng, "VERSION"), ["0.83"])
    elif fmt == "any" and rng.random() < 0.08:
        # a first key that nearly is VERSION (the rule says: exactly VERSION, in any letter case)
        param(rng.choice(["VERS\u0130ON", "vers\u0130on", "VERSIONS", "versions", "VERSION2", " VERSION",
                          "XVERSION", "VERSIO", "VERSI\u00d6N"]), ["0.83"])
    nparams = rng.randint(0, 6) if rng.random() < 0.97 else rng.randint(20, 80)
    used = []
    for _ in range(nparams):
        stray()
        k = rng.choice(KEYS) if rng.random() < 0.8 else (
            rng.choice(gen.LEGACY_TAGS) if rng.random() < 0.4 else
            gen.gen_string(rng, "plain", 4).replace("\n", ""))
        if used and rng.random() < 0.2:
            k = rng.choice(used)        # duplicate key
        used.append(k)
        r = rng.random()
        if k in gen.REALISTIC and rng.random() < 0.3:
            # values as real simfiles have them (several attacks, BPM ranges, Windows paths)
            v = rng.choice(gen.REALISTIC[k])
            if k in ("ATTACKS", "DISPLAYBPM"):
                comps = v.split(":")
                if k == "ATTACKS" and rng.random() < 0.6:
                    comps = comps + ["TIME=2.000", "LEN=1.000", "MODS=tornado"]
                param(_case(rng, k), comps)
            else:
                param(_case(rng, k), [gen.esc(v)])
        elif r < 0.08:
            param(_case(rng, k), [], keyonly=True)
        elif r < 0.25 or k in ("ATTACKS", "DISPLAYBPM") and r < 0.6:
            param(_case(rng, k), [_val(rng) for _ in range(rng.randint(2, 4))])
        else:
            param(_case(rng, k), [_val(rng)])
    if fmt in ("sm", "any") and rng.random() < 0.04:
        # two SM charts whose components differ only in where a literal colon sits
        a = rng.choice(["Remix", "x", ""])
        twin = [[nl + "     dance-single", nl + "     " + a, nl + "     Edit\\:Hard", "9", "0,0", nl + "0000" + nl],
                [nl + "     dance-single", nl + "     " + a + "\\:Edit", nl + "     Hard", "9", "0,0", nl + "0000" + nl]]
        rng.shuffle(twin)
        for comps in twin:
            param("NOTES", comps)
        if rng.random() < 0.5:
            param("NOTES", ["a", "b", "c", "1", "0", "N\\:x"])
            param("NOTES", ["a", "b", "c", "1", "0", "N", "x"])
    ncharts = rng.randint(0, 2) if rng.random() < 0.97 else rng.randint(5, 20)
    for _ in range(ncharts):
        stray()
        which = fmt if fmt != "any" else rng.choice(["sm", "ssc"])
        if which == "sm":
            n = 6 if rng.random() < 0.8 else rng.choice([0, 1, 3, 5, 7, 8])
            pad = ["", " ", nl + "     ", "\t", "\u3000", "\xa0", "\x0b", "\x0c", "\x1c", "\x85",
                   "\u2028", "\r", " " + nl + " "]
            comps = [rng.choice(pad if rng.random() < 0.3 else pad[:3]) + _val(rng).replace("#", "") +
                     rng.choice(pad if rng.random() < 0.3 else ["", " ", nl]) for _ in range(n)]
            if n >= 6 and rng.random() < 0.3:
                comps[0] = nl + "     " + rng.choice(gen.STEPSTYPES)
                comps[2] = nl + "     " + rng.choice(gen.DIFFICULTIES)
            if n >= 6 and rng.random() < 0.02:
                comps[5] = nl + gen.esc(gen.gen_dense_string(rng, rng.choice([9000, 26000, 70000]))
                                        .replace("\r", "")) + nl
            param(_case(rng, "NOTES"), comps, keyonly=(n == 0 and rng.random() < 0.5))
        else:
            param(_case(rng, "NOTEDATA"), [""], keyonly=rng.random() < 0.1)
            for _ in range(rng.randint(0, 4)):
                stray()
                k = rng.choice(CHART_KEYS)
                if k in ("ATTACKS", "DISPLAYBPM") and rng.random() < 0.4:
                    comps = rng.choice(gen.REALISTIC[k]).split(":")
                    if k == "ATTACKS":
                        comps = comps + ["TIME=2.000", "LEN=1.000", "MODS=tornado"]
                    param(_case(rng, k), comps)
                elif rng.random() < 0.1:
                    param(_case(rng, k), [], keyonly=True)
                else:
                    param(_case(rng, k), [_val(rng) for _ in range(rng.choice([1, 1, 1, 2, 3]))])
            if rng.random() < 0.9:
                nv = _val(rng)
                if rng.random() < 0.02:
                    nv = gen.esc(gen.gen_dense_string(rng, rng.choice([9000, 26000, 70000])))
                nk_ = rng.choice(["NOTES", "NOTES", "NOTES2"])
                other_ = "NOTES2" if nk_ == "NOTES" else "NOTES"
                both_ = rng.random() < 0.08
                if both_ and rng.random() < 0.5:
                    param(_case(rng, other_), [_val(rng)], keyonly=rng.random() < 0.4)
                param(_case(rng, nk_), [nv], keyonly=rng.random() < 0.06)
                if both_ and rng.random() < 0.5:
                    param(_case(rng, other_), [_val(rng)], keyonly=rng.random() < 0.4)
            # parameters after the chart's note data
            if rng.random() < 0.3:
                param(_case(rng, rng.choice(CHART_KEYS + KEYS)), [_val(rng)])
        if rng.random() < 0.25:
            stray()
            param(_case(rng, rng.choice(KEYS)), [_val(rng)])     # parameter after NOTES
    stray()
    text = "".join(parts)
    if rng.random() < 0.04:
        # a long preamble (comments, blank lines) before the first parameter, straddling
        # the 4096-character / 8192-byte chunk sizes of the readers
        n = rng.choice([4000, 4090, 4100, 5000, 8200, 9000])
        pre = []
        size = 0
        while size < n:
            line = rng.choice(["// " + "c" * rng.randint(0, 70), "", "   ", "//"]) + nl
            pre.append(line)
            size += len(line)
        bom = text[:1] if text[:1] == "\ufeff" else ""
        text = bom + "".join(pre) + text[len(bom):]
    if rng.random() < 0.05:
        # straddle the 4096-character chunk msdparser reads / the 8192-byte chunk TextIOWrapper reads
        pad = "#PAD:" + "p" * rng.choice([4080, 4090, 4096, 8180, 8192]) + ";" + nl
        if rng.random() < 0.6:
            # a run of multi-byte characters across the 4096 / 8192 byte (and character) offsets:
            # the boundary falls inside a character for most phases
            blk = rng.choice([4096, 8192, 8192])
            mb = rng.choice(["\u3042", "\u00e9", "\U0001d11e", "\ud55c"])
            pad = "#PAD:" + "p" * (blk - 5 - rng.randint(0, 12)) + mb * 12 + ";" + nl
        text = pad + text if rng.random() < 0.7 else text + pad
    text = _leading_bom_only(_no_trailing_backslash(text))
    return text


def _no_trailing_backslash(text):
    # texts ending in an unpaired backslash are excluded (msdparser assertion, known finding)
    m = re.search(r"\\+$", text)
    if m and len(m.group(0)) % 2 == 1:
        text += "n"
    return text


def _leading_bom_only(text):
    """The quantifier has 'a leading BOM'.  A BOM elsewhere is judged by msdparser
    per text *token*, and where tokens end depends on how the stream was chunked
    (a BOM after a line break is stray text when read in one piece and ignored
    when a read boundary falls before it) - the trusted base is not chunk-invariant
    there, so such texts are outside the domain."""
    return text[:1] + text[1:].replace("\ufeff", "")


def _sane_buffering(b):
    # 0 is invalid for text mode, 1 means line buffering; both only arise from shrinking
    return None if b is None or b < 2 else b


def corrupt(rng, data, other):
    """corrupt-stored faults on the bytes of a stored file."""
    kind = rng.choice(["truncate", "flip", "drop", "dup", "splice", "truncate", "none"])
    n = len(data)
    if n == 0 or kind == "none":
        return data, "none"
    if kind == "truncate":
        return data[:rng.randint(0, n)], kind
    if kind == "flip":
        b = bytearray(data)
        for _ in range(rng.randint(1, 3)):
            i = rng.randrange(n)
            b[i] = rng.choice([b[i] ^ (1 << rng.randrange(8)), ord("#"), ord(";"), ord(":"),
                               ord("\\"), ord("\n"), 0x81, 0xff])
        return bytes(b), kind
    i = rng.randrange(n)
    j = min(n, i + rng.randint(1, max(1, n // 4)))
    if kind == "drop":
        return data[:i] + data[j:], kind
    if kind == "dup":
        return data[:j] + data[i:j] + data[j:], kind
    k = rng.randrange(len(other) + 1) if other else 0
    return data[:i] + (other[k:] if other else b""), "splice"


NAMES = ["x.sm", "x.ssc", "x.SM", "x.Ssc", "x.txt", "x.sm.bak", "noext", "a.b.sm", "sm", ".ssc"]


def generate(prop, rng, run, tier):
    strict = rng.random() < 0.5
    cfg = {"strict": strict, "short_reads": rng.randint(1, 10 ** 6) if rng.random() < 0.7 else None,
           "read_chunk": rng.choice([1, 2, 3, 5, 17, 64, 4096]),
           "buffering": rng.choice([None, None, 2, 9, 64, 8192])}
    if prop == "C03":
        cfg["real"] = rng.random() < 0.05
        cfg["newline"] = gen.wchoice(rng, [("default", 6), ("none", 2), ("empty", 2)])
        if rng.random() < 0.3:
            cfg["explicit_first"] = rng.choice(["cp1252", "latin-1", "cp932", "utf-8", "cp949"])
        cfg["store_enc"] = rng.choice([None, None, "cp1252", "cp932", "cp949"])
        if rng.random() < 0.1:
            cfg["bom16_first"] = rng.choice(["le", "be"])
        r = rng.random()
        if r < 0.04:
            rel = rng.choice(CORPUS["sm"] + CORPUS["ssc"])
            data = corpus_text(rel).encode("utf-8")
            data, how = corrupt(rng, data, b"")
            text = data.decode("utf-8", "replace")
            text = _leading_bom_only(_no_trailing_backslash(text))
            cfg["source"] = "corpus:" + how
        else:
            text = gen_msd_text(rng)
            cfg["source"] = "generated"
        names = rng.sample(NAMES, 3)
        if cfg.get("store_enc") and text.isascii() and rng.random() < 0.7:
            # make the stored bytes of that code page invalid UTF-8 (a comment at the end)
            text = text + "// " + {"cp1252": "caf\u00e9", "cp932": "\u3042\u30bd",
                                    "cp949": "\ud55c\uae00"}[cfg["store_enc"]] + "\n"
            text = _leading_bom_only(_no_trailing_backslash(text))
        sc = {"workload": "load", "property": "C03", "config": cfg, "text": text, "names": names}
        # history inside the scenario: another text (usually of the other format) is
        # loaded first through the same entry points under the same file names, so that
        # anything remembered between loads (by name, by stream, per class) shows up
        if rng.random() < 0.6:
            sc["decoy"] = gen_msd_text(rng)
        # stand-alone chart inputs
        if rng.random() < 0.5:
            sc["smchart"] = [rng.choice(["", " ", "\n     "]) + gen.gen_string(rng, "meta", 5)
                             .replace(":", "") + rng.choice(["", " ", "\n"])
                             for _ in range(rng.choice([6, 6, 6, 7, 9, 5, 0, 1]))]
        return sc
    # C04
    cfg["strict"] = rng.random() < 0.3
    fmt = rng.choice(["sm", "ssc"])
    r = rng.random()
    if r < 0.06:
        rel = rng.choice(CORPUS[fmt])
        data = corpus_text(rel).encode("utf-8")
        cfg["source"] = "corpus"
    else:
        data = gen_msd_text(rng, fmt).encode("utf-8")
        cfg["source"] = "generated"
    other = gen_msd_text(rng, fmt).encode("utf-8")
    if rng.random() < 0.5:
        data, how = corrupt(rng, data, other)
        cfg["corrupt"] = how
    cfg["facade"] = gen.wchoice(rng, [("simfs", 46), ("native", 46), ("memoryfs", 4), ("realos", 4)])
    cfg["fmt"] = fmt
    cfg["save_via"] = rng.choice(["serialize", "str", "str"])
    cfg["reload_via"] = rng.choice(["open", "open", "ctor-string", "ctor-file"])
    if rng.random() < 0.25:
        # history: str() of another object fails part-way first
        cfg["failed_str_first"] = rng.choice(["int-value", "premature", "chart-without-notes"])
    if rng.random() < 0.3:
        # fault as history: a first save that fails part-way (storage error at the j-th
        # call of the save, or an encoding that cannot hold the text); the retry is judged
        cfg["failed_save_first"] = rng.choice([{"kind": "err", "j": rng.randint(1, 6)},
                                               {"kind": "ascii"}, {"kind": "cp1252"}])
    return {"workload": "load", "property": "C04", "config": cfg, "data": data.hex()}


def fixed_scenarios(prop):
    out = []
    if prop == "C03":
        # known finding of the dependency: unpaired trailing backslash
        out.append({"workload": "load", "property": "C03", "fixed": "kf:trailing-backslash",
                    "config": {"strict": True, "short_reads": None, "read_chunk": 4096,
                               "buffering": None, "allow_trailing_backslash": True},
                    "text": "#TITLE:a;\n\\", "names": ["x.sm"]})
        for strict in (True, False):
            out.append({"workload": "load", "property": "C03", "fixed": "sanity",
                        "config": {"strict": strict, "short_reads": 5, "read_chunk": 3,
                                   "buffering": 2},
                        "text": "stray\n#version:0.83;\n#Title:a;\n#title:b;\n#ATTACKS:a:b:c;\n"
                                "#NOTEDATA:;\n#notes:0000;\n#CREDIT:x;\n",
                        "names": ["x.txt", "x.sm.bak", "x.SM"]})
    if prop == "C04":
        for fmt, body in (("sm", "#TITLE;\n#attacks;\n#NOTES:a:b:c:d:e:0000:x:y;\n"),
                          ("ssc", "#VERSION:0.83;\n#TITLE;\n#NOTEDATA:;\n#CREDIT;\n#NOTES2:;\n#X:;\n")):
            for facade in ("simfs", "native"):
                out.append({"workload": "load", "property": "C04", "fixed": "sanity",
                            "config": {"strict": True, "facade": facade, "fmt": fmt,
                                       "short_reads": 3, "buffering": 2},
                            "data": body.encode().hex()})
        # fixed probes for the msdparser escaping gaps (known findings): texts that load
        # to a value / key the dependency cannot write back
        for name, body in (("hash-after-linebreak", "#TITLE:a\n\\#b;\n"),
                           ("triple-slash-value", "#TITLE:a\\/\\/\\/b;\n"),
                           ("hash-in-key", "#T:x;\n#\n\\#B:x;\n"),
                           ("triple-slash-key", "#A\\/\\/\\/B:x;\n"),
                           ("hash-across-components", "#A\n:\\#x;\n"),
                           ("hash-after-blank-key", "#T:x;\n#:\\#x;\n")):
            out.append({"workload": "load", "property": "C04", "fixed": "kf:" + name, "guard": False,
                        "config": {"strict": True, "facade": "simfs", "fmt": "sm",
                                   "short_reads": None, "buffering": None},
                        "data": body.encode().hex()})
    return out


# ---------------------------------------------------------------- stream stubs
class StubTextIO(typing.TextIO):
    """A text stream that *is* a typing.TextIO: read() returns at most
    ``chunk`` characters (fewer under short reads), seek/tell by character."""

    def __init__(self, text, chunk, short_rng, name_kind, name):
        self._text = text
        self._pos = 0
        self._chunk = chunk
        self._rng = short_rng
        self.reads = 0
        self.seeks = 0
        if name_kind == "str":
            self._name = name
        elif name_kind == "bytes":
            self._name = name.encode()
        elif name_kind == "int":
            self._name = 7
        else:
            self._name = None
        self._has_name = name_kind != "absent"

    @property
    def name(self):
        return self._name

    def read(self, n=-1):
        self.reads += 1
        if n is None or n < 0:
            # the io contract: a negative or missing size reads until end of file
            s = self._text[self._pos:]
            self._pos = len(self._text)
            return s
        n = min(n, self._chunk)
        if self._rng is not None and n > 1:
            n = self._rng.randint(1, n)
        s = self._text[self._pos:self._pos + n]
        self._pos += len(s)
        return s

    def readline(self, limit=-1):
        i = self._text.find("\n", self._pos)
        end = len(self._text) if i < 0 else i + 1
        s = self._text[self._pos:end]
        self._pos = end
        return s

    def __iter__(self):
        return self

    def __next__(self):
        s = self.readline()
        if not s:
            raise StopIteration
        return s

    def seek(self, offset, whence=0):
        self.seeks += 1
        if whence == 0:
            self._pos = offset
        elif whence == 1:
            self._pos += offset
        else:
            self._pos = len(self._text) + offset
        return self._pos

    def tell(self):
        return self._pos

    def seekable(self):
        return True

    def readable(self):
        return True

    def close(self):
        pass


def _lines(text):
    return re.findall(r"[^\n]*\n|[^\n]+", text)


# --------------------------------------------------------------------- oracle
def _expected(text, name, strict, forced_kind=None):
    """(kind or None, RefSimfile | LoadError) for a load-type entry point."""
    if forced_kind is None:
        kind = ref_detect(name, text, strict)
        if isinstance(kind, LoadError):
            return None, kind
    else:
        kind = forced_kind
    return kind, ref_load(text, kind, strict)


def _judge(res, label, text, name, strict, fn, lib, forced_kind=None, translate=False):
    """Run one entry point and compare with the reference."""
    P = "C03"
    t = universal_newlines(text) if translate else text
    kind, exp = _expected(t, name, strict, forced_kind)
    try:
        got = fn()
        err = None
    except MSDParserError as e:
        got, err = None, e
    except ValueError as e:
        got, err = None, e
    res.evaluations += 1
    if isinstance(exp, LoadError):
        if err is None:
            res.violate(P, "accepted-but-reference-rejects", entry=label, strict=strict, name=repr(name),
                        expected=repr(exp), text=text[:300])
            return False
        if type(err).__name__ != exp.exc:
            res.violate(P, "wrong-error-class", entry=label, strict=strict, name=repr(name),
                        expected=exp.exc, got=repr(err), text=text[:300])
            return False
        if exp.exc == "MSDParserError" and str(err) != exp.message:
            # the message quotes the last key: with line breaks kept as stored (accepted on
            # the universal-newline paths, see below) it quotes the untranslated key
            alt = _expected(text, name, strict, forced_kind)[1] if translate and "\r" in text else None
            if not (isinstance(alt, LoadError) and alt.exc == "MSDParserError"
                    and str(err) == alt.message):
                res.violate(P, "wrong-parser-error", entry=label, strict=strict, expected=exp.message,
                            got=str(err), text=text[:300])
                return False
        res.note("err", label.split(":")[0], strict, exp.exc, type(name).__name__)
        res.stats["probe:expected-error:" + exp.exc] += 1
        return True
    if err is not None:
        if not strict and isinstance(err, MSDParserError):
            res.violate(P, "rejected-for-stray-text-although-not-strict", entry=label,
                        name=repr(name), got=repr(err), text=text[:300])
        else:
            res.violate(P, "rejected-but-reference-accepts", entry=label, strict=strict,
                        name=repr(name), got=repr(err), text=text[:300])
        return False
    want_cls = {"sm": lib.SMSimfile, "ssc": lib.SSCSimfile}[kind]
    if type(got) is not want_cls:
        res.violate(P, "wrong-format-detected", entry=label, strict=strict, name=repr(name),
                    got=type(got).__name__, expected=kind, text=text[:300])
        return False
    gp = ops.real_plain(got, lib)
    if gp != exp.plain():
        # accepted either way: key-only ATTACKS/DISPLAYBPM as None or '', and - where the
        # stream came from text mode with universal newlines - line breaks translated or
        # kept as stored (that translation is Python's, not the library's)
        variants = [ref_load(t, kind, strict, "")]
        if translate and "\r" in text:
            variants += [ref_load(text, kind, strict), ref_load(text, kind, strict, "")]
        if not any((not isinstance(v, LoadError)) and gp == v.plain() for v in variants):
            res.violate(P, "loaded-object-differs", entry=label, strict=strict, name=repr(name),
                        got=_trim(gp), expected=_trim(exp.plain()), text=text[:300])
            return False
    res.note("ok", label.split(":")[0], strict, kind, type(name).__name__,
             len(exp.items), len(exp.charts), shash(tuple(k for k, _ in exp.items[:5])) & 0xfff)
    return True


def check_c03(sc, res):
    lib = ops.lib()
    sfm = lib.simfile
    cfg = sc["config"]
    text = sc["text"]
    strict = bool(cfg["strict"])
    if not cfg.get("allow_trailing_backslash"):
        text = _no_trailing_backslash(text)
    text = _leading_bom_only(text)
    import random
    sr = cfg.get("short_reads")
    chunk = int(cfg.get("read_chunk") or 4096)

    def stub(name_kind, name):
        return StubTextIO(text, chunk, random.Random(sr) if sr is not None else None, name_kind, name)

    decoy = sc.get("decoy")
    if decoy:
        decoy = _leading_bom_only(_no_trailing_backslash(decoy))
        for name in sc.get("names", [])[:2]:
            for fn in (lambda: sfm.loads(decoy, strict=False),
                       lambda: sfm.load(StubTextIO(decoy, 4096, None, "str", name), strict=False),
                       lambda: lib.SMSimfile(string=decoy, strict=False),
                       lambda: lib.SSCSimfile(string=decoy, strict=False)):
                try:
                    fn()
                except (MSDParserError, ValueError):
                    pass
            try:
                ddata = decoy.encode("utf-8")
            except UnicodeEncodeError:
                continue
            for facade in ("simfs", "native"):
                ddisk = SimDisk({"dirs": ["/d"], "files": {"/d/" + name: ddata.hex()}})
                with Facade(facade, ddisk) as dfa:
                    try:
                        sfm.open(dfa.p("/d/" + name), strict=False, **dfa.kw)
                    except (MSDParserError, ValueError):
                        pass
        res.stats["probe:decoy-loaded-first"] += 1
    ok = True
    # 1. strings, StringIO, iterators of lines
    ok = ok and _judge(res, "loads", text, None, strict, lambda: sfm.loads(text, strict=strict), lib)
    ok = ok and _judge(res, "load-stringio", text, None, strict,
                       lambda: sfm.load(io.StringIO(text), strict=strict), lib)
    ok = ok and _judge(res, "load-iterator", text, None, strict,
                       lambda: sfm.load(iter(_lines(text)), strict=strict), lib)
    ok = ok and _judge(res, "load-generator", text, None, strict,
                       lambda: sfm.load((l for l in _lines(text)), strict=strict), lib)
    # iterators whose items are not whole lines: empty strings in between, arbitrary chunks
    import random as _r
    irng = _r.Random(len(text) * 7919 + (sr or 0))
    with_empty = []
    for l in _lines(text):
        if irng.random() < 0.3:
            with_empty.append("")
        with_empty.append(l)
    with_empty = ([""] if irng.random() < 0.5 else []) + with_empty + [""]
    ok = ok and _judge(res, "load-iterator-empty-items", text, None, strict,
                       lambda: sfm.load(iter(with_empty), strict=strict), lib)
    chunks = []
    i = 0
    while i < len(text):
        n = irng.choice([1, 2, 3, 5, 8, 13, 40, 200])
        chunks.append(text[i:i + n])
        i += n
    ok = ok and _judge(res, "load-iterator-chunks", text, None, strict,
                       lambda: sfm.load(iter(chunks), strict=strict), lib)
    # 2. typing.TextIO stream objects whatever their name
    for nk, nm in [("str", n) for n in sc.get("names", [])] + [("bytes", "x.ssc"), ("int", ""),
                                                                ("absent", "")]:
        if not ok:
            break
        s = stub(nk, nm)
        name = s.name
        ok = ok and _judge(res, "load-textio:" + nk, text, name, strict,
                           lambda: sfm.load(s, strict=strict), lib)
        if ok and s.reads:
            res.stats["probe:stub-stream-read"] += 1
        if ok and s.seeks:
            res.stats["probe:stub-stream-rewound-after-peek"] += 1
    # 3. open file objects (TextIOWrapper) and file names on both façades
    try:
        data = text.encode("utf-8")
    except UnicodeEncodeError:
        data = None
    alt = None
    if data is not None and cfg.get("store_enc"):
        # the same text stored in a code page: open(filename) reaches it through the
        # fallback encodings (only when detection recovers exactly this text)
        try:
            d2 = text.encode(cfg["store_enc"])
        except UnicodeEncodeError:
            d2 = None
        if d2 is not None and d2 != data:
            enc2 = ref_encoding(d2, DEFAULT_ENCODINGS)
            if enc2 and enc2 != "utf-8" and d2.decode(enc2) == text:
                alt = d2
    if data is not None:
        for name in sc.get("names", []):
            for facade in ("simfs", "native") + (("memoryfs", "realos") if cfg.get("real") else ()):
                if not ok:
                    break
                path = "/d/" + name
                world = {"dirs": ["/d"], "files": {path: data.hex()}}
                translate = facade in ("native", "realos")
                kw = {}
                if _sane_buffering(cfg.get("buffering")) is not None:
                    kw["buffering"] = cfg["buffering"]
                # keyword arguments are passed to open(): the caller's newline mode decides
                # whether line breaks are translated (None = universal newlines, "" = as stored)
                nlmode = cfg.get("newline", "default")
                if nlmode == "none":
                    kw["newline"] = None
                    translate = True
                elif nlmode == "empty":
                    kw["newline"] = ""
                    translate = False

                if cfg.get("explicit_first") and facade in ("simfs", "native"):
                    # history: the same file opened with an explicit encoding first
                    hdisk = make_disk(world, {}, None, facade)
                    with Facade(facade, hdisk) as hfa:
                        try:
                            sfm.open(hfa.p(path), strict=False, encoding=cfg["explicit_first"],
                                     **hfa.kw)
                        except (MSDParserError, ValueError, UnicodeDecodeError):
                            pass
                    res.stats["probe:explicit-encoding-open-first"] += 1

                def via_file():
                    disk = make_disk(world, {"short_reads": sr}, None, facade)
                    with Facade(facade, disk) as fa:
                        f = fa.open(path, "r", encoding="utf-8", **kw)
                        with f:
                            r = sfm.load(f, strict=strict)
                        if disk.buggify.get("short_read"):
                            res.stats["buggify:short_read"] += disk.buggify["short_read"]
                        if any(e[1] == "seek" for e in disk.events):
                            res.stats["probe:file-rewound-after-peek"] += 1
                        return r

                def via_name():
                    if cfg.get("bom16_first") and facade in ("simfs", "native"):
                        # history: a file that starts with a UTF-16 byte order mark was opened
                        # by name earlier in this process
                        bom = b"\xff\xfe" if cfg["bom16_first"] == "le" else b"\xfe\xff"
                        codec = "utf-16-le" if cfg["bom16_first"] == "le" else "utf-16-be"
                        bdisk = make_disk({"dirs": ["/d"], "files": {
                            "/d/bom16.sm": (bom + "#TITLE:x;\n".encode(codec)).hex()}}, {}, None, facade)
                        with Facade(facade, bdisk) as bfa:
                            try:
                                sfm.open(bfa.p("/d/bom16.sm"), strict=False, **bfa.kw)
                            except Exception:
                                pass
                        res.stats["probe:utf16-bom-file-opened-first"] += 1
                    w = world if alt is None else {"dirs": ["/d"], "files": {path: alt.hex()}}
                    disk = make_disk(w, {"short_reads": sr}, None, facade)
                    if alt is not None:
                        res.stats["probe:open-by-name-in-fallback-encoding"] += 1
                    with Facade(facade, disk) as fa:
                        return sfm.open(fa.p(path), strict=strict, **dict(fa.kw, **kw))

                ok = ok and _judge(res, "load-file:" + facade, text, path, strict, via_file, lib,
                                   translate=translate)
                ok = ok and _judge(res, "open:" + facade, text, path, strict, via_name, lib,
                                   translate=translate)
                if facade in ("memoryfs", "realos") and ok:
                    res.stats["probe:facade:" + facade] += 1
    # 4. class constructors
    for kind, cls in (("sm", lib.SMSimfile), ("ssc", lib.SSCSimfile)):
        if not ok:
            break
        ok = ok and _judge(res, "ctor-string:" + kind, text, None, strict,
                           lambda: cls(string=text, strict=strict), lib, forced_kind=kind)
        ok = ok and _judge(res, "ctor-file-stringio:" + kind, text, None, strict,
                           lambda: cls(file=io.StringIO(text), strict=strict), lib, forced_kind=kind)
        ok = ok and _judge(res, "ctor-file-textio:" + kind, text, None, strict,
                           lambda: cls(file=stub("str", "y.txt"), strict=strict), lib,
                           forced_kind=kind)
        ok = ok and _judge(res, "ctor-file-iterator:" + kind, text, None, strict,
                           lambda: cls(file=iter(_lines(text)), strict=strict), lib,
                           forced_kind=kind)
    if not ok:
        return
    # 5. strict=False equals the strict load of the text with the stray text removed
    if not strict:
        cleaned = strip_stray_text(text)
        kind = ref_detect(None, cleaned, True)
        exp = None if isinstance(kind, LoadError) else ref_load(cleaned, kind, True)
        if isinstance(kind, LoadError) or (isinstance(exp, LoadError) and exp.exc == "MSDParserError"):
            raise HarnessError("strip_stray_text left stray text in %r -> %r" % (text, cleaned))
        if not isinstance(exp, LoadError):
            try:
                a = sfm.loads(text, strict=False)
                b = sfm.loads(cleaned, strict=True)
            except ValueError:
                a = b = None
            res.evaluations += 1
            if a is not None and (type(a) is not type(b) or
                                  ops.real_plain(a, lib) != ops.real_plain(b, lib)):
                res.violate("C03", "lenient-load-differs-from-strict-load-of-cleaned-text",
                            text=text[:300], cleaned=cleaned[:300])
                return
            if cleaned != text:
                res.stats["probe:stray-text-removed"] += 1
    # 6. stand-alone chart entry points
    _check_chart_entries(sc, res, text, strict, lib)


def _check_chart_entries(sc, res, text, strict, lib):
    P = "C03"
    # SSCChart.from_str on the text from its first NOTEDATA parameter on
    m = re.search(r"(?i)#NOTEDATA", text)
    if m:
        ctext = text[m.start():]
        exp = ref_load_sscchart(ctext, strict)
        try:
            got = lib.SSCChart.from_str(ctext, strict=strict)
            err = None
        except (MSDParserError, ValueError) as e:
            got, err = None, e
        except StopIteration as e:
            got, err = None, e
        res.evaluations += 1
        if isinstance(exp, LoadError):
            if exp.exc == "StopIteration":
                pass
            elif err is None or type(err).__name__ != exp.exc:
                res.violate(P, "sscchart-from-str-error-mismatch", expected=repr(exp), got=repr(err),
                            text=ctext[:300], strict=strict)
                return
        elif err is not None:
            res.violate(P, "sscchart-from-str-raised", got=repr(err), text=ctext[:300], strict=strict)
            return
        else:
            gp = ops.real_plain(got, lib)["items"]
            if gp != exp.plain()["items"] and \
                    gp != ref_load_sscchart(ctext, strict, "").plain()["items"]:
                res.violate(P, "sscchart-from-str-differs", got=_trim(gp),
                            expected=_trim(exp.plain()["items"]), text=ctext[:300])
                return
            res.note("sscchart", strict, len(gp), tuple(k for k, _ in gp[:4]))
            res.stats["probe:sscchart-from-str"] += 1
    comps = sc.get("smchart")
    if comps is not None:
        for label, fn in (("from_msd", lambda: lib.SMChart.from_msd(list(comps))),
                          ("from_msd-tuple", lambda: lib.SMChart.from_msd(tuple(comps))),
                          ("from_str", lambda: lib.SMChart.from_str(":".join(comps)))):
            vals = list(comps) if label != "from_str" else ":".join(comps).split(":")
            try:
                got = fn()
                err = None
            except ValueError as e:
                got, err = None, e
            res.evaluations += 1
            if len(vals) < 6:
                if err is None:
                    res.violate(P, "smchart-short-accepted", entry=label, comps=comps)
                    return
                continue
            if err is not None:
                res.violate(P, "smchart-raised", entry=label, comps=comps, got=repr(err))
                return
            exp = RefSMChart([v.strip() for v in vals[:6]], vals[6:])
            if ops.real_plain(got, lib) != exp.plain():
                res.violate(P, "smchart-differs", entry=label, got=_trim(ops.real_plain(got, lib)),
                            expected=_trim(exp.plain()))
                return
            res.note("smchart", label, len(vals))
            res.stats["probe:smchart-entry"] += 1


# ------------------------------------------------------------------------ C04
def check_c04(sc, res):
    lib = ops.lib()
    sfm = lib.simfile
    cfg = sc["config"]
    P = "C04"
    fmt = cfg["fmt"]
    facade = cfg["facade"]
    strict = bool(cfg.get("strict", True))
    data = bytes.fromhex(sc["data"])
    path = "/d/in." + fmt
    out1 = "/d/out1." + fmt
    out2 = "/d/out2." + fmt
    disk = make_disk({"dirs": ["/d"], "files": {path: data.hex()}},
                     {"short_reads": cfg.get("short_reads"), "short_writes": 4242}, None, facade)
    kw = {}
    if _sane_buffering(cfg.get("buffering")) is not None:
        kw["buffering"] = cfg["buffering"]
    guard = sc.get("guard", True)
    with Facade(facade, disk) as fa:
        fkw = dict(fa.kw)
        opener = fa.open
        path, out1, out2 = path, out1, out2
        # ---- load 1
        try:
            sf1 = sfm.open(fa.p(path), strict=strict, **fkw)
        except (MSDParserError, ValueError, UnicodeDecodeError, AssertionError) as e:
            # AssertionError: msdparser's lexer on a text ending in an unpaired
            # backslash (excluded; fixed probe under C03)
            res.stats["probe:does-not-load:" + type(e).__name__] += 1
            res.evaluations += 1
            return
        res.evaluations += 1
        m1 = simfile_from_plain(ops.real_plain(sf1, lib))
        if fmt == "ssc" and any(c.notes_key() is None for c in m1.charts):
            res.stats["outside-domain:ssc-chart-without-notes"] += 1
            return
        emission = ref_emit(m1)
        gap = classify_gap(emission)
        if gap is not None and gap[0] == "excluded" and guard:
            res.stats["outside-domain:gap-" + gap[1]] += 1
            return

        def gapped(clause, **detail):
            if gap is not None:
                res.violate(P, "roundtrip-in-dependency-gap", kf_class=gap[1], gap_kind=gap[0],
                            inner_clause=clause)
            else:
                res.violate(P, clause, **detail)

        # ---- optionally: a save that fails part-way first (fault), then the retry
        fs1 = cfg.get("failed_save_first")
        if fs1:
            out0 = "/d/out0." + fmt
            try:
                if fs1["kind"] == "err":
                    if hasattr(disk, "faults"):
                        k = disk.seq + int(fs1["j"])
                        disk.faults[k] = {"kind": "err", "k": k, "errno": "ENOSPC"}
                    with opener(out0, "w", encoding="utf-8", buffering=2) as f:
                        sf1.serialize(f)
                else:
                    with opener(out0, "w", encoding=fs1["kind"], buffering=2) as f:
                        sf1.serialize(f)
                res.stats["failed-save-did-not-fail"] += 1
            except (OSError, UnicodeEncodeError, fs_errors.FSError):
                res.stats["fault:first-save-failed-part-way"] += 1
            if hasattr(disk, "faults"):
                disk.faults.clear()
                disk.pending_write_fail = None
            if ops.real_plain(sf1, lib) != m1.plain():
                res.violate(P, "failed-save-changed-the-loaded-simfile",
                            before=_trim(m1.plain()), after=_trim(ops.real_plain(sf1, lib)))
                return
        if cfg.get("failed_str_first"):
            from .edit import failed_str_elsewhere
            failed_str_elsewhere(sc, res, {"what": cfg["failed_str_first"]}, lib, fmt)
        via_str = cfg.get("save_via") == "str"

        def save(sf, f):
            if via_str:
                f.write(str(sf))
            else:
                sf.serialize(f)

        # ---- save 1 (to the disk, through a real TextIOWrapper)
        try:
            with opener(out1, "w", encoding="utf-8", **kw) as f:
                save(sf1, f)
        except UnicodeEncodeError:
            res.stats["outside-domain:not-utf8"] += 1
            return
        except Exception as e:
            res.violate(P, "loaded-simfile-cannot-be-serialized", exc=repr(e), state=_trim(m1.plain()),
                        data=sc["data"][:600])
            return
        bytes1 = bytes(disk.snapshot()[0][norm_(out1)])
        # ---- restart; load 2 strictly, same format
        try:
            reload_via = cfg.get("reload_via", "open")
            text1 = None
            if reload_via != "open":
                try:
                    text1 = bytes1.decode("utf-8")
                except UnicodeDecodeError:
                    text1 = None
                if text1 is None or "\r" in text1:
                    reload_via = "open"       # (line-break translation is the text layer's)
            if reload_via == "open":
                sf2 = sfm.open(fa.p(out1), strict=True, **fkw)
            elif reload_via == "ctor-string":
                sf2 = type(sf1)(string=text1, strict=True)
            else:
                sf2 = type(sf1)(file=io.StringIO(text1), strict=True)
            res.stats["probe:reload-via:" + reload_via] += 1
        except Exception as e:
            gapped("saved-output-does-not-load", exc=repr(e), output=bytes1[:400].decode("utf-8", "replace"))
            return
        if type(sf2) is not type(sf1):
            gapped("saved-output-loads-as-other-format", got=type(sf2).__name__)
            return
        got = ops.real_plain(sf2, lib)
        want = m1.normalised_plain()
        if got != want:
            gapped("reload-differs", got=_trim(got), expected=_trim(want),
                   output=bytes1[:400].decode("utf-8", "replace"))
            return
        # ---- save 2
        try:
            with opener(out2, "w", encoding="utf-8", **kw) as f:
                save(sf2, f)
        except Exception as e:
            gapped("second-save-raised", exc=repr(e))
            return
        bytes2 = bytes(disk.snapshot()[0][norm_(out2)])
        if bytes2 != bytes1:
            gapped("second-save-differs", first=bytes1[:400].decode("utf-8", "replace"),
                   second=bytes2[:400].decode("utf-8", "replace"))
            return
        # the stored input is untouched by all of this
        if bytes(disk.snapshot()[0][norm_(path)]) != data:
            res.violate(P, "input-file-changed-by-load")
            return
    res.stats["probe:cycles-judged"] += 1
    res.stats["probe:facade:" + facade] += 1
    if cfg.get("corrupt"):
        res.stats["fault:corrupt-stored:" + cfg["corrupt"]] += 1
    if any(v is None for _, v in m1.items):
        res.stats["probe:key-only-property"] += 1
    res.steps += len(disk.events)
    for k, v in disk.buggify.items():
        if v:
            res.stats["buggify:" + k] += v
    res.note("cycle", fmt, facade, strict, cfg.get("corrupt"), len(m1.items), len(m1.charts),
             any(v is None for _, v in m1.items), shash(tuple(k for k, _ in m1.items[:6])) & 0xffff)


def norm_(p):
    from ..simdisk import norm
    return norm(p)


def execute(sc):
    res = RunResult()
    if sc["property"] == "C03":
        check_c03(sc, res)
    elif sc["property"] == "C04":
        check_c04(sc, res)
    else:
        raise HarnessError("load workload serves C03/C04")
    res.log(sc["property"], [v.sig() for v in res.violations], sorted(res.stats.items()))
    return res
