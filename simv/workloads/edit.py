"""W-EDIT: an editor session on one in-memory simfile with saves and restarts
(C01, C02) and two interleaved views of one shared object (C18)."""
import io
import os

from msdparser import MSDParserError

from .. import gen, models, ops
from ..core import RunResult, HarnessError, shash
from ..facades import Facade
from ..models import (ATTRS, EXCLUDED_GAPS, INDOMAIN_GAPS, SM_FIELDS, RefSMChart, RefSSCChart,
                      RefSimfile, dep_roundtrip_ok, gap_classes, ref_emit, serialisable,
                      simfile_from_plain, tokens_of)
from ..simdisk import SimDisk

PROPS = ("C01", "C02", "C18")
REPO = os.environ.get("SIMFILE_REPO", "/repo")
CORPUS = {"sm": ["testdata/nekonabe/nekonabe.sm"],
          "ssc": ["testdata/Springtime/Springtime.ssc", "testdata/L9/L9.ssc"]}
_CORPUS_CACHE = {}


def corpus_text(rel):
    if rel not in _CORPUS_CACHE:
        with open(os.path.join(REPO, rel), encoding="utf-8") as f:
            _CORPUS_CACHE[rel] = f.read()
    return _CORPUS_CACHE[rel]


# ------------------------------------------------------------------ generate
def generate(prop, rng, run, tier):
    if prop == "C18":
        return _generate_c18(rng)
    fmt = "sm" if prop == "C01" else "ssc"
    profile = gen.wchoice(rng, [("plain", 1), ("meta", 3), ("wild", 3)])
    start = gen.wchoice(rng, [("blank", 4), ("empty", 4), ("noargs", 1), ("corpus", 0.25)])
    cfg = {"fmt": fmt, "start": start, "profile": profile}
    if start == "corpus":
        cfg["corpus"] = rng.choice(CORPUS[fmt])
    n = rng.randint(0, 14) if start != "corpus" else rng.randint(0, 4)
    if rng.random() < 0.05:
        n = rng.randint(15, 40)
    many_charts = start != "corpus" and rng.random() < 0.04
    nch = 0 if start in ("blank", "empty", "noargs") else 3
    seq = []
    model_keys_hint = ["TITLE", "ARTIST", "BPMS", "OFFSET", "MUSIC"] if start != "empty" else []
    # swarm: per run a random subset of op kinds is weighted down to zero
    weights = {}
    for k in ("del_key", "del_attr", "move", "charts_insert", "charts_remove", "charts_swap",
              "charts_reverse", "charts_replace", "charts_assign", "get_attr", "get_key",
              "contains", "iter"):
        if rng.random() < 0.3:
            weights[k] = 0
    if rng.random() < 0.15:
        weights["chart"] = 0
    if fmt == "sm" and start != "corpus" and rng.random() < 0.04:
        # two charts whose components differ only in where a literal colon sits
        a = rng.choice(["Remix", "x", ""])
        twin = [["dance-single", a, "Edit:Hard", "9", "0,0", "0000"],
                ["dance-single", (a + ":Edit"), "Hard", "9", "0,0", "0000"]]
        rng.shuffle(twin)
        for f in twin:
            seq.append({"op": "charts_append", "chart": {"from": "fields", "fields": f}})
            nch += 1
        if rng.random() < 0.5:
            seq.append({"op": "charts_append", "chart": {"from": "fields", "fields":
                                                         ["a", "b", "c", "1", "0", "N:x"]}})
            seq.append({"op": "charts_append", "chart": {"from": "fields", "fields":
                                                         ["a", "b", "c", "1", "0", "N"], "extra": ["x"]}})
            nch += 2
    if many_charts:
        # many charts at once (counts random edit sequences rarely reach); now and then more
        # than a thousand tiny ones (deeper than Python's default recursion limit)
        if rng.random() < 0.04:
            tiny = {"from": "items", "items": [["NOTES", "0"]]} if fmt == "ssc" else \
                {"from": "fields", "fields": ["a", "", "Easy", "1", "0", "0"]}
            for _ in range(rng.randint(1050, 1400)):
                seq.append({"op": "charts_append", "chart": tiny})
                nch += 1
            n = min(n, 3)
        else:
            for _ in range(rng.randint(8, 30)):
                seq.append({"op": "charts_append", "chart": gen.gen_chart_spec(rng, fmt, profile)})
                nch += 1
    after_save = False
    for _ in range(n):
        r = rng.random()
        if after_save and rng.random() < 0.5:
            # right after a save: a mutation that does not go through item assignment
            # (stale-state hazards: anything derived from the mapping and kept across saves)
            after_save = False
            if fmt == "ssc" and nch > 0 and rng.random() < 0.5:
                # chart-level bypass: reorder / pop / setdefault on a chart's mapping
                ck = rng.choice(["NOTES", "NOTES2", "STEPSTYPE", "CREDIT", "DESCRIPTION", "METER",
                                 "CHARTNAME", "RADARVALUES", "DIFFICULTY", "X"])
                kind = rng.choice(["move", "move", "dict_pop", "dict_setdefault", "rename_key"])
                if kind in ("dict_pop", "dict_setdefault") and ck in ("NOTES", "NOTES2"):
                    ck = "CREDIT"
                op = {"op": kind, "i": rng.randint(0, nch - 1), "key": ck}
                if kind == "rename_key":
                    # note data moved to the other spelling of its key, same object
                    op["key"], op["new"] = rng.choice([("NOTES", "NOTES2"), ("NOTES2", "NOTES")])
                if kind == "move":
                    op["last"] = rng.random() < 0.5
                if kind == "dict_setdefault":
                    op["value"] = gen.gen_value(rng, profile)
            else:
                kind = rng.choice(["move", "dict_pop", "dict_popitem", "dict_setdefault", "rename_key",
                                   "charts_swap", "charts_reverse", "chart"])
                op = gen.gen_edit_op(rng, fmt, profile, nch, "roundtrip", {kind: 1000})
                if op["op"] == "move" and model_keys_hint:
                    op["key"] = rng.choice(model_keys_hint)
            seq.append(op)
            seq.append({"op": "save", "how": rng.choice(["str", "stringio"])})
            continue
        if r < 0.12:
            after_save = True
            # faults as history right before the save: a save that fails part-way, a
            # str() of another object that fails part-way
            if rng.random() < 0.25:
                seq.append({"op": "failed_save", "fail_after": rng.choice([0, 1, 5, 20, 60, 200, 1000]),
                            "ascii": rng.random() < 0.3})
            if rng.random() < 0.2:
                seq.append({"op": "failed_str", "what": rng.choice(["int-value", "premature",
                                                                    "chart-without-notes"])})
            seq.append({"op": "save", "how": rng.choice(["str", "stringio", "textio", "disk"])})
        elif r < 0.18:
            seq.append({"op": "restart", "entry": rng.choice(["ctor-string", "ctor-file", "loads",
                                                              "load-stringio", "open-simfs",
                                                              "open-native", "deepcopy", "pickle"])})
        else:
            op = gen.gen_edit_op(rng, fmt, profile, nch, "roundtrip", weights)
            seq.append(op)
            if op["op"] in ("charts_append", "charts_insert"):
                nch += 1
    if rng.random() < 0.2:
        seq.append({"op": "failed_save", "fail_after": rng.choice([0, 1, 5, 20, 60, 200, 1000]),
                    "ascii": rng.random() < 0.3})
    if rng.random() < 0.15:
        seq.append({"op": "failed_str", "what": rng.choice(["int-value", "premature",
                                                            "chart-without-notes"])})
    seq.append({"op": "save", "how": rng.choice(["str", "stringio", "textio", "disk"])})
    return {"workload": "edit", "property": prop, "config": cfg, "ops": gen.flatten_ops(seq)}


LEGACY_TAGS = gen.LEGACY_TAGS


def _generate_c18(rng):
    obj = rng.choice(["sm", "ssc", "sscchart", "smchart"])
    fmt = "sm" if obj in ("sm", "smchart") else "ssc"
    start = rng.choice(["blank", "empty"]) if obj in ("sm", "ssc") else "empty"
    cfg = {"fmt": fmt, "start": start, "obj": obj, "profile": "plain"}
    pre = []
    if obj == "smchart":
        pre.append({"op": "charts_append", "chart": rng.choice([
            {"from": "blank"},
            {"from": "fields", "fields": ["dance-single", "d", "Hard", "9", "0,0", "0000"]},
            {"from": "fields", "fields": ["a", "b", "c", "d", "e", "f"], "extra": ["x", "y"]},
            # an empty SMChart() whose six fields are assigned in another order
            {"from": "ctor", "fields": ["a", "b", "c", "d", "e", "f"], "via": rng.choice(["attr", "key"]),
             "order": rng.sample(range(6), 6)},
            {"from": "ctor", "fields": ["dance-single", "", "Easy", "1", "0,0", "0000"], "via": "attr",
             "order": rng.sample(range(6), 6), "extra": ["x"]}])})
    elif obj == "sscchart":
        pre.append({"op": "charts_append", "chart": rng.choice([
            {"from": "blank"}, {"from": "items", "items": []},
            {"from": "items", "items": [["NOTES2", "0000"]]},
            {"from": "items", "items": [["STEPSTYPE", "dance-single"], ["NOTES", "1000"],
                                        ["NOTES2", "0001"]]}])})
    n = rng.randint(1, 30)
    seq = []
    target = None if obj in ("sm", "ssc") else 0
    kind = obj if obj in ("sm", "ssc") else obj
    attrs = sorted(ATTRS[kind])
    aliased = {"sm": [("stops", "STOPS", "FREEZES"), ("bgchanges", "BGCHANGES", "ANIMATIONS")],
               "ssc": [("bgchanges", "BGCHANGES", "ANIMATIONS"), ("stops", "STOPS", "FREEZES")],
               "sscchart": [("notes", "NOTES", "NOTES2")],
               "smchart": [("notes", "NOTES", "notes"), ("stepstype", "STEPSTYPE", "stepstype")]}[kind]
    focus = rng.choice(aliased)
    for _ in range(n):
        # which property this op is about: the focused aliased one most of the time
        r = rng.random()
        if r < 0.6:
            attr, std, alias = focus
        elif r < 0.75:
            attr, std, alias = rng.choice(aliased)
        else:
            attr = rng.choice(attrs)
            std, alias = ATTRS[kind][attr][0], None
        value = rng.choice(["", "v%d" % rng.randint(0, 9), "x", "0.000=1.000", "a:b", "  ", "a\\b",
                            "..\\shared\\banner.png", "\\", "x//y", "a;b", " padded ", "150:150",
                            "heavy", "l1\nl2", "\u00e9\u3042", "0000\n0000\n", "rows\r\n", "\n",
                            "\nlead", "tab\t"])
        if rng.random() < 0.12:
            # the vocabulary of real files, in canonical and other spellings
            value = rng.choice(gen.DIFFICULTIES + gen.STEPSTYPES + gen.VALUE_LIKE +
                               ["hard", "HARD", "eDiT", "MEDIUM", "Challenge", "BEGINNER"])
        if rng.random() < 0.05:
            value = None          # what a key-only parameter (#STOPS;) loads as
        if kind == "smchart":
            opk = gen.wchoice(rng, [("get_attr", 2), ("set_attr", 3), ("del_attr", 1), ("get_key", 2),
                                    ("set_key", 3), ("del_key", 1), ("contains", 1), ("iter", 1),
                                    ("keys", 0.5), ("update", 0.7), ("pop", 0.7), ("popitem", 0.5),
                                    ("set_extra", 0.5)])
        else:
            opk = gen.wchoice(rng, [("get_attr", 2), ("set_attr", 3), ("del_attr", 2), ("get_key", 2),
                                    ("set_key", 3), ("del_key", 2), ("contains", 1), ("iter", 1),
                                    ("keys", 0.5), ("move", 0.7), ("rename_key", 0.6)])
        op = {"op": opk}
        if target is not None:
            op["i"] = target
        if opk in ("get_attr", "set_attr", "del_attr"):
            op["attr"] = attr
        elif opk in ("get_key", "set_key", "del_key", "contains", "move", "update", "pop"):
            which = rng.random()
            if which < 0.45:
                op["key"] = std
            elif which < 0.8 and alias:
                op["key"] = alias
            else:
                op["key"] = rng.choice(["X", "UNRELATED", std.lower(), "FREEZES", "NOTES2", "",
                                        std.capitalize(), "NOTEDATA", "NOTES", "VERSION", "ATTACKS",
                                        "DISPLAYBPM", "._X", "A B"]) if rng.random() < 0.5 else \
                    rng.choice(LEGACY_TAGS + [std + "S", std + "2", std[:-1], "OLD" + std])
        if opk in ("set_attr", "set_key", "update"):
            op["value"] = value
        if opk == "move":
            op["last"] = rng.random() < 0.5
        if opk == "rename_key":
            _, std_, alias_ = focus
            op["key"], op["new"] = rng.choice([(std_, alias_), (alias_, std_), (std_, "X"), ("X", alias_)])
        if opk == "set_extra":
            op["extra"] = rng.choice([None, [], ["e1"], ["e1", "e2:x"]])
        seq.append(op)
    return {"workload": "edit", "property": "C18", "config": cfg, "ops": pre + seq,
            "pre": len(pre)}


def _c18_core():
    """A fixed core of short histories that is executed whatever the seed (as C06 has its
    fixed configuration matrix): for every aliased property of every object kind, from every
    presence state of the standard key and its alias, every pair of operations of the
    property's vocabulary, and every triple whose first operation is a read (a read that
    leaves hidden state behind shows two steps later).  The seeded histories remain the
    deciding step; this only guarantees that no batch misses the short ones."""
    out = []

    def vocab(attr, std, alias, chart):
        v = [{"op": "get_attr", "attr": attr}, {"op": "set_attr", "attr": attr, "value": "v1"},
             {"op": "set_attr", "attr": attr, "value": ""}, {"op": "del_attr", "attr": attr},
             {"op": "iter"}]
        for k in (std, alias, "X"):
            v += [{"op": "get_key", "key": k}, {"op": "set_key", "key": k, "value": "v2"},
                  {"op": "set_key", "key": k, "value": ""}, {"op": "del_key", "key": k},
                  {"op": "contains", "key": k}]
        if chart:
            v = [dict(o, i=0) for o in v]
        return v

    combos = [("sm", "sm", "stops", "STOPS", "FREEZES"), ("sm", "sm", "bgchanges", "BGCHANGES", "ANIMATIONS"),
              ("ssc", "ssc", "bgchanges", "BGCHANGES", "ANIMATIONS"), ("ssc", "ssc", "stops", "STOPS", "FREEZES"),
              ("sscchart", "ssc", "notes", "NOTES", "NOTES2")]
    for obj, fmt, attr, std, alias in combos:
        chart = obj == "sscchart"
        states = [[], [[std, "s"]], [[std, ""]], [[alias, "a"]], [[alias, ""]],
                  [[std, "s"], [alias, "a"]], [[alias, "a"], [std, "s"]], [[std, ""], [alias, "a"]],
                  [[std, None], [alias, "a"]]]
        ops_ = vocab(attr, std, alias, chart)
        reads = [o for o in ops_ if o["op"] in ("get_attr", "iter") or
                 (o["op"] == "contains" and o["key"] == std)]
        for st in states:
            if chart:
                pre = [{"op": "charts_append", "chart": {"from": "items", "items": [["STEPSTYPE", "x"]] + st}}]
            else:
                pre = [{"op": "set_key", "key": k, "value": v} for k, v in st]
            cfg = {"fmt": fmt, "start": "empty", "obj": obj, "profile": "plain"}
            for a in ops_:
                for b in ops_:
                    out.append({"workload": "edit", "property": "C18", "fixed": "core", "config": cfg,
                                "ops": pre + [a, b], "pre": len(pre)})
            for r in reads:
                for a in ops_:
                    if a["op"] in ("get_attr", "get_key", "contains", "iter"):
                        continue
                    for b in ops_:
                        out.append({"workload": "edit", "property": "C18", "fixed": "core", "config": cfg,
                                    "ops": pre + [r, a, b], "pre": len(pre)})
    # SM chart: its six fields, by attribute, by upper-case key, by other spellings, and the
    # refused operations; from a parsed chart and from an empty SMChart() filled in another order
    for std in ("NOTES", "STEPSTYPE"):
        attr = std.lower()
        v = [{"op": "get_attr", "attr": attr}, {"op": "set_attr", "attr": attr, "value": "v1"},
             {"op": "set_attr", "attr": attr, "value": ""}, {"op": "del_attr", "attr": attr},
             {"op": "iter"}, {"op": "keys"}, {"op": "popitem"}, {"op": "set_extra", "extra": ["e1"]},
             {"op": "set_extra", "extra": None}]
        for k in (std, std.lower(), "X"):
            v += [{"op": "get_key", "key": k}, {"op": "set_key", "key": k, "value": "v2"},
                  {"op": "set_key", "key": k, "value": ""}, {"op": "del_key", "key": k},
                  {"op": "contains", "key": k}, {"op": "update", "key": k, "value": "v3"},
                  {"op": "pop", "key": k}]
        v = [dict(o, i=0) for o in v]
        for spec in ({"from": "fields", "fields": ["a", "b", "c", "d", "e", "f"], "extra": ["x"]},
                     {"from": "ctor", "fields": ["a", "b", "c", "d", "e", "f"], "via": "attr",
                      "order": [5, 3, 0, 4, 1, 2]}):
            pre = [{"op": "charts_append", "chart": spec}]
            cfg = {"fmt": "sm", "start": "empty", "obj": "smchart", "profile": "plain"}
            for a in v:
                for b in v:
                    out.append({"workload": "edit", "property": "C18", "fixed": "core", "config": cfg,
                                "ops": pre + [a, b], "pre": len(pre)})
    return out


_C18_CORE = None


def fixed_scenarios(prop):
    """Fixed probes: the known-finding inputs (run every time so that the
    KNOWN-FINDING lines do not depend on the seed), and tiny sanity sessions."""
    global _C18_CORE
    if prop == "C18":
        if _C18_CORE is None:
            _C18_CORE = _c18_core()
        return _C18_CORE
    out = []
    if prop in ("C01", "C02"):
        fmt = "sm" if prop == "C01" else "ssc"

        def probe(name, *edits):
            return {"workload": "edit", "property": prop, "fixed": name, "guard": False,
                    "config": {"fmt": fmt, "start": "empty", "profile": "plain"},
                    "ops": list(edits) + [{"op": "save", "how": "str"}]}
        out.append(probe("kf:hash-after-linebreak", {"op": "set_key", "key": "TITLE", "value": "a\n#b"}))
        out.append(probe("kf:triple-slash-value", {"op": "set_key", "key": "TITLE", "value": "a///b"}))
        out.append(probe("kf:hash-in-key", {"op": "set_key", "key": "T", "value": "x"},
                         {"op": "set_key", "key": "\n#B", "value": "x"}))
        out.append(probe("kf:triple-slash-key", {"op": "set_key", "key": "A///B", "value": "x"}))
        out.append(probe("kf:hash-across-components",
                         {"op": "set_key", "key": "A\n", "value": "#x"}))
        out.append(probe("kf:hash-after-blank-key", {"op": "set_key", "key": "T", "value": "x"},
                         {"op": "set_key", "key": "", "value": "#x"}))
        if fmt == "sm":
            out.append(probe("kf:hash-after-linebreak",
                             {"op": "charts_append", "chart": {"from": "fields", "fields":
                                                               ["a", "b", "c", "d", "e", "#x"]}}))
            out.append(probe("kf:hash-across-components",
                             {"op": "charts_append", "chart": {"from": "fields", "fields":
                                                               ["a", "b", "c", "d", "e", "0000"],
                                                               "extra": ["#x"]}}))
    return out


# ------------------------------------------------------------------- starting
def start_object(cfg, lib):
    fmt = cfg["fmt"]
    cls = lib.SMSimfile if fmt == "sm" else lib.SSCSimfile
    start = cfg["start"]
    if start == "blank":
        sf = cls.blank()
    elif start == "empty":
        sf = cls(string="")
    elif start == "noargs":
        sf = cls()
        sf.charts = []
    elif start == "corpus":
        sf = cls(string=corpus_text(cfg["corpus"]))
    else:
        raise HarnessError("unknown start %r" % (start,))
    return sf


# -------------------------------------------------------------------- domains
def roundtrip_domain(model):
    """Is the object inside the stated C01/C02 domain? (keys upper-case and not the
    chart marker, SM fields stripped strings, SSC charts with exactly one of
    NOTES/NOTES2, everything str or None)"""
    if not serialisable(model):
        return "unserialisable"
    for k in model.keys():
        if not isinstance(k, str) or k != k.upper():
            return "lower-key"
    if model.kind == "sm":
        if model.has("NOTES"):
            return "notes-key"
        for c in model.charts:
            if not isinstance(c, RefSMChart):
                return "foreign-chart"
            if sorted(k for k, _ in c.items) != sorted(SM_FIELDS):
                return "smchart-keys"
            for _, v in c.items:
                if v != v.strip():
                    return "unstripped-field"
    else:
        if model.has("NOTEDATA"):
            return "notedata-key"
        for c in model.charts:
            if not isinstance(c, RefSSCChart):
                return "foreign-chart"
            if c.has("NOTEDATA"):
                return "notedata-key"
            if c.has("NOTES") == c.has("NOTES2"):
                return "notes-count"
            for k in c.keys():
                if not isinstance(k, str) or k != k.upper():
                    return "lower-key"
    return None


def classify_gap(emission):
    """None if msdparser alone round-trips the expected emission; otherwise
    ("excluded"|"indomain"|"unexplained", class)."""
    if dep_roundtrip_ok(emission):
        return None
    classes = gap_classes(emission)
    if classes & EXCLUDED_GAPS:
        return ("excluded", sorted(classes & EXCLUDED_GAPS)[0])
    if classes & INDOMAIN_GAPS:
        return ("indomain", sorted(classes & INDOMAIN_GAPS)[0])
    return ("unexplained", "none")


# ---------------------------------------------------------------------- saves
class _PlainTextIO:
    """A minimal writer object (only write())."""

    def __init__(self):
        self.parts = []

    def write(self, s):
        self.parts.append(s)
        return len(s)


def save_text(sf, how, lib):
    if how == "str":
        return str(sf)
    if how == "stringio":
        f = io.StringIO()
        sf.serialize(f)
        return f.getvalue()
    if how == "textio":
        f = _PlainTextIO()
        sf.serialize(f)
        return "".join(f.parts)
    if how == "disk":
        disk = SimDisk({"dirs": ["/d"], "files": {}}, {"short_writes": 12345})
        with Facade("simfs", disk) as fa:
            with fa.fs.open("/d/out.txt", "w", encoding="utf-8", buffering=64) as f:
                sf.serialize(f)
        return bytes(disk.files["/d/out.txt"]).decode("utf-8")
    raise HarnessError("unknown save %r" % (how,))


class _FailingWriter:
    """A writer whose write() fails after a number of characters (a full disk, a
    closed pipe) or that cannot encode non-ASCII text."""

    def __init__(self, fail_after, ascii_only):
        self.left = fail_after
        self.ascii_only = ascii_only

    def write(self, s):
        if self.ascii_only:
            s.encode("ascii")
        self.left -= len(s)
        if self.left < 0:
            raise OSError(28, "No space left on device (injected)")
        return len(s)


def failed_save(sc, res, sf, op, lib, prop):
    """A save that fails part-way (fault), as history: it may raise, it must not
    change the object."""
    before = ops.real_plain(sf, lib)
    w = _FailingWriter(int(op.get("fail_after", 0)), bool(op.get("ascii")))
    try:
        sf.serialize(w)
        res.stats["failed-save-did-not-fail"] += 1
    except (OSError, UnicodeEncodeError):
        res.stats["fault:save-failed-part-way"] += 1
    except Exception:
        # an object outside the domain (unserialisable) may fail in other ways
        res.stats["failed-save-other-exception"] += 1
    if ops.real_plain(sf, lib) != before:
        res.violate(prop, "failed-save-changed-the-object", op=op, before=_trim(before),
                    after=_trim(ops.real_plain(sf, lib)))


def failed_str_elsewhere(sc, res, op, lib, fmt):
    """str() of *another* object fails part-way (it holds a non-string value, or has
    no charts yet).  Pure history for the session's own object."""
    cls = lib.SMSimfile if fmt == "sm" else lib.SSCSimfile
    what = op.get("what", "int-value")
    try:
        if what == "premature":
            other = cls()
            other["LEFTOVER"] = "x"
            str(other)
        elif what == "chart-without-notes" and fmt == "ssc":
            other = cls(string="#VERSION:0.83;\n#LEFTOVER:x;\n")
            c = lib.SSCChart()
            c["STEPSTYPE"] = "leftover"
            other.charts.append(c)
            str(other)
        else:
            other = cls(string="#LEFTOVER:x;\n#OFFSET:1;\n")
            other["OFFSET"] = 1.5
            str(other)
        res.stats["failed-str-did-not-fail"] += 1
    except Exception:
        res.stats["fault:str-of-other-object-failed"] += 1


def reload_text(text, entry, fmt, lib):
    cls = lib.SMSimfile if fmt == "sm" else lib.SSCSimfile
    if entry == "ctor-string":
        return cls(string=text)
    if entry == "ctor-file":
        return cls(file=io.StringIO(text))
    if entry == "loads":
        return lib.simfile.loads(text)
    if entry == "load-stringio":
        return lib.simfile.load(io.StringIO(text))
    if entry in ("open-simfs", "open-native"):
        facade = "simfs" if entry == "open-simfs" else "native"
        name = "/d/x." + fmt
        disk = SimDisk({"dirs": ["/d"], "files": {name: text.encode("utf-8").hex()}},
                       {"short_reads": 777})
        with Facade(facade, disk) as fa:
            return lib.simfile.open(fa.p(name), **fa.kw)
    raise HarnessError("unknown entry %r" % (entry,))


def check_save(sc, res, sf, how, lib, prop, guard=True):
    """The C01/C02 oracle at one save point.  Returns the text or None."""
    fmt = sc["config"]["fmt"]
    model = simfile_from_plain(ops.real_plain(sf, lib))
    why = roundtrip_domain(model)
    if why:
        res.stats["outside-domain:" + why] += 1
        return None
    emission = ref_emit(model)
    gap = classify_gap(emission)
    if gap is not None and gap[0] == "excluded" and guard:
        res.stats["outside-domain:gap-" + gap[1]] += 1
        return None
    before = model.plain()
    try:
        text = save_text(sf, how, lib)
    except UnicodeEncodeError:
        res.stats["outside-domain:not-utf8-encodable"] += 1
        return None
    except Exception as e:
        res.violate(prop, "serialize-raised", how=how, exc=repr(e), state=model.plain())
        return None
    res.evaluations += 1
    if ops.real_plain(sf, lib) != before:
        res.violate(prop, "serialization-changed-the-object", how=how, before=_trim(before),
                    after=_trim(ops.real_plain(sf, lib)))
        return None

    def gapped(clause, **detail):
        """A failure inside an msdparser escaping gap is the dependency's."""
        if gap is not None:
            res.violate(prop, "roundtrip-in-dependency-gap", kf_class=gap[1], gap_kind=gap[0],
                        inner_clause=clause)
        else:
            res.violate(prop, clause, **detail)

    cls = lib.SMSimfile if fmt == "sm" else lib.SSCSimfile
    try:
        back = cls(string=text)
    except MSDParserError as e:
        gapped("strict-parser-rejects-output", exc=str(e), text=text[:400])
        return None
    except Exception as e:
        gapped("reparse-raised", exc=repr(e), text=text[:400])
        return None
    got = ops.real_plain(back, lib)
    want = model.normalised_plain()
    if got != want:
        gapped("reparsed-differs", got=_trim(got), expected=_trim(want), text=text[:400])
        return None
    # equality as the library defines it, both ways; for SSC the live object must
    # compare equal when its charts already end with their note data
    # (for SM always: an SM chart is its six fields whatever order its mapping holds them in)
    if model.plain() == want or fmt == "sm":
        if not (back == sf and sf == back) or (back != sf):
            gapped("reparsed-not-equal-to-live-object", state=_trim(want))
            return None
    text2 = str(back)
    if text2 != text:
        gapped("second-serialisation-differs", first=text[:400], second=text2[:400])
        return None
    try:
        toks = tokens_of(text, strict=True)
    except MSDParserError as e:
        gapped("strict-tokenizer-rejects-output", exc=str(e))
        return None
    if toks != [tuple(p) for p in emission]:
        gapped("emitted-structure-differs", got=_trim(toks), expected=_trim(emission))
        return None
    # auto-detection
    first_key = model.items[0][0] if model.items else None
    if fmt == "sm" and first_key != "VERSION":
        det = lib.simfile.loads(text)
        if type(det) is not lib.SMSimfile:
            gapped("not-detected-as-sm", got=type(det).__name__)
            return None
    if fmt == "ssc" and first_key == "VERSION":
        det = lib.simfile.loads(text)
        if type(det) is not lib.SSCSimfile:
            gapped("not-detected-as-ssc", got=type(det).__name__)
            return None
    if fmt == "ssc":
        for i, (c, mc) in enumerate(zip(sf.charts, model.charts)):
            ctext = str(c)
            try:
                cb = lib.SSCChart.from_str(ctext)
            except Exception as e:
                gapped("chart-from-str-raised", exc=repr(e), i=i)
                return None
            if ops.real_plain(cb, lib)["items"] != mc.normalised_items():
                gapped("chart-from-str-differs", i=i, got=_trim(ops.real_plain(cb, lib)["items"]),
                       expected=_trim(mc.normalised_items()))
                return None
    if gap is not None:
        res.stats["gap-but-roundtrip-held"] += 1
    nk = [c.notes_key() for c in model.charts] if fmt == "ssc" else []
    res.note("save", fmt, how, len(model.items), len(model.charts), first_key == "VERSION",
             any(v is None for _, v in model.items), tuple(nk),
             _shape(model))
    res.stats["probe:saves-judged"] += 1
    if any(v is None for _, v in model.items):
        res.stats["probe:key-only-property"] += 1
    if fmt == "ssc" and any(k == "NOTES2" for k in nk):
        res.stats["probe:notes2-alias-chart"] += 1
    if fmt == "ssc":
        for c in model.charts:
            nv = c.get(c.notes_key())
            if any(k != c.notes_key() and v == nv for k, v in c.items):
                res.stats["probe:property-equal-to-notes"] += 1
                break
    if fmt == "sm" and any(c.extra for c in model.charts):
        res.stats["probe:sm-extra-components"] += 1
    if any(k in models.MULTI and v and ":" in v for k, v in model.items):
        res.stats["probe:multi-value-with-colon"] += 1
    return text


def _shape(model):
    """Abstract state shape used for the distinctness measure."""
    def vshape(v):
        if v is None:
            return "N"
        if v == "":
            return "E"
        s = ""
        for ch, tag in ((":", "c"), (";", "s"), ("\\", "b"), ("//", "/"), ("\n", "n"), ("#", "h")):
            if ch in v:
                s += tag
        return s or "p"
    items = tuple((k if k in models.MULTI or k in ("VERSION", "FREEZES", "ANIMATIONS") else "k",
                   vshape(v)) for k, v in model.items[:6])
    charts = tuple(len(c.items) for c in model.charts[:4])
    return shash((items, charts)) & 0xffffff


def _trim(x, n=1200):
    s = repr(x)
    return x if len(s) <= n else s[:n] + "..."


# ------------------------------------------------------------------------ C18
def check_c18_state(sc, res, sf, model, idx, op, lib, last_touched):
    P = "C18"
    got = ops.real_plain(sf, lib)
    want = model.plain()
    if got != want:
        res.violate(P, "state-differs-from-model", at=idx, op=op, got=_trim(got), expected=_trim(want))
        return False
    # every documented attribute of the touched object reads per the alias rule
    targets = [(sf, model)]
    for rc, mc in zip(sf.charts, model.charts):
        targets.append((rc, mc))
    for real, m in targets:
        for attr in ATTRS[m.kind]:
            try:
                g = getattr(real, attr)
            except Exception as e:
                res.violate(P, "attribute-read-raised", at=idx, attr=attr, exc=repr(e), kind=m.kind)
                return False
            w = m.attr_get(attr)
            if g is not w and g != w:
                res.violate(P, "attribute-disagrees-with-keys", at=idx, attr=attr, got=g,
                            expected=w, kind=m.kind, keys=m.keys())
                return False
        if isinstance(m, RefSMChart):
            ks = list(real)
            # (the order of the mapping's keys is the order of first assignment - only a chart
            # filled through the empty constructor has another one; the documented field order
            # is what the serialisation clause below checks)
            if sorted(ks) != sorted(SM_FIELDS):
                res.violate(P, "smchart-keys-not-fixed", at=idx, keys=ks, op=op)
                return False
    # equality sees exactly the mapping's content
    twin = ops.build_real(model, lib)
    if not (twin == sf and sf == twin) or (twin != sf):
        res.violate(P, "equality-disagrees-with-content", at=idx, state=_trim(want))
        return False
    if idx % 3 == 0 and (model.items or model.charts):
        # a twin that differs in one value only - by a visible character or by white space
        # at an edge - must not compare equal (simfile level, and inside a chart)
        other = model.clone()
        pert = ["~", "\n", " ", "\t"][(idx // 3) % 4]
        tgt = other.charts[0] if (other.charts and other.charts[0].items and (idx // 3) % 2) \
            or not other.items else other
        if tgt.items:
            k, v = tgt.items[-1]
            tgt.items[-1][1] = (v or "") + pert if (idx // 12) % 2 == 0 else pert + (v or "")
            twin2 = ops.build_real(other, lib)
            if twin2 == sf or not (twin2 != sf):
                res.violate(P, "equality-ignores-content", at=idx, perturbation=pert,
                            in_chart=tgt is not other)
                return False
        if len(other.items) >= 2:
            other2 = model.clone()
            other2.items.reverse()
            if ops.build_real(other2, lib) == sf:
                res.violate(P, "equality-ignores-order", at=idx)
                return False
    # serialisation sees exactly the mapping's content
    if serialisable(model):
        emission = ref_emit(model)
        if dep_roundtrip_ok(emission):
            try:
                text = str(sf)
                toks = tokens_of(text, strict=True)
            except Exception as e:
                res.violate(P, "serialisation-raised", at=idx, exc=repr(e), state=_trim(want))
                return False
            if toks != [tuple(p) for p in emission]:
                res.violate(P, "serialisation-disagrees-with-content", at=idx, got=_trim(toks),
                            expected=_trim(emission))
                return False
    return True


def _c18_companions(lib, fmt):
    """Other objects of the same classes, alive for the whole session and read right before
    the session's object is: one that holds only the legacy alias of every aliased property,
    one that holds only the standard key.  What was resolved for them must not leak."""
    cls = lib.SMSimfile if fmt == "sm" else lib.SSCSimfile
    out = []
    for which in ("alias", "standard"):
        o = cls(string="")
        if which == "alias":
            o["ANIMATIONS"] = "companion-anim"
            o["FREEZES"] = "companion-freezes"
            expect = {"bgchanges": "companion-anim",
                      "stops": "companion-freezes" if fmt == "sm" else None}
        else:
            o["BGCHANGES"] = "companion-bg"
            o["STOPS"] = "companion-stops"
            expect = {"bgchanges": "companion-bg", "stops": "companion-stops"}
        out.append((o, expect))
        if fmt == "ssc":
            c = lib.SSCChart()
            c["NOTES2" if which == "alias" else "NOTES"] = "companion-notes"
            out.append((c, {"notes": "companion-notes"}))
    return out


def _read_companions(res, companions, idx):
    # the alias-only companion is read last (right before the session's object) on even
    # steps, the standard-only one on odd steps
    for obj, expect in (companions if idx % 2 else list(reversed(companions))):
        for attr, want in expect.items():
            got = getattr(obj, attr)
            if got != want:
                res.violate("C18", "attribute-of-another-object-disagrees-with-its-keys", at=idx,
                            attr=attr, got=got, expected=want)
                return False
    return True


# -------------------------------------------------------------------- execute
def execute(sc):
    res = RunResult()
    lib = ops.lib()
    prop = sc["property"]
    cfg = sc["config"]
    fmt = cfg["fmt"]
    strings = ops.Strings()
    # a bystander of the same class, alive for the whole session: nothing done to the
    # session's object may change it (state shared between instances)
    bystander = start_object(cfg, lib)
    if cfg["start"] != "corpus":
        bc = lib.SMChart.blank() if fmt == "sm" else lib.SSCChart.blank()
        bystander.charts.append(bc)
        bystander["BYSTANDER"] = "b"
    by_plain = ops.real_plain(bystander, lib)
    by_text = str(bystander)
    sf = start_object(cfg, lib)
    model = simfile_from_plain(ops.real_plain(sf, lib))
    guard = sc.get("guard", True)
    prev_kind = "start"
    companions = _c18_companions(lib, fmt) if prop == "C18" else None
    pre = sc.get("pre", 0)
    for idx, op in enumerate(sc["ops"]):
        name = op["op"]
        res.steps += 1
        if name == "save":
            if prop == "C18":
                continue
            text = check_save(sc, res, sf, op.get("how", "str"), lib, prop, guard)
            if res.violations:
                break
            continue
        if name == "failed_save":
            if prop != "C18":
                failed_save(sc, res, sf, op, lib, prop)
                if res.violations:
                    break
            continue
        if name == "failed_str":
            if prop != "C18":
                failed_str_elsewhere(sc, res, op, lib, fmt)
            continue
        if name == "restart":
            if prop == "C18":
                continue
            model = simfile_from_plain(ops.real_plain(sf, lib))
            if roundtrip_domain(model) or classify_gap(ref_emit(model)) is not None:
                res.stats["restart-skipped-outside-domain"] += 1
                continue
            text = check_save(sc, res, sf, "str", lib, prop, guard)
            if res.violations or text is None:
                break
            entry = op.get("entry", "ctor-string")
            if entry in ("deepcopy", "pickle"):
                # the session continues on a copy of the object (no text involved): equal in
                # every respect, order included, and whatever the instance carried came along
                import copy as _copy
                import pickle as _pickle
                try:
                    sf2 = _copy.deepcopy(sf) if entry == "deepcopy" else _pickle.loads(_pickle.dumps(sf))
                except Exception as e:
                    res.violate(prop, "copy-raised", entry=entry, exc=repr(e))
                    break
                if ops.real_plain(sf2, lib) != model.plain():
                    res.violate(prop, "copy-differs", entry=entry, got=_trim(ops.real_plain(sf2, lib)),
                                expected=_trim(model.plain()))
                    break
                sf = sf2
                res.stats["probe:restart:" + entry] += 1
                continue
            first_key = model.items[0][0] if model.items else None
            detect_ok = (first_key == "VERSION") == (fmt == "ssc")
            if entry in ("loads", "load-stringio") and not detect_ok:
                entry = "ctor-string"
            if entry in ("open-simfs", "open-native"):
                try:
                    text.encode("utf-8")
                except UnicodeEncodeError:
                    entry = "ctor-string"
                if entry == "open-native" and "\r" in text:
                    entry = "open-simfs"
            try:
                sf2 = reload_text(text, entry, fmt, lib)
            except Exception as e:
                res.violate(prop, "restart-load-raised", entry=entry, exc=repr(e), text=text[:400])
                break
            want = model.normalised_plain()
            got = ops.real_plain(sf2, lib)
            if got != want:
                res.violate(prop, "restart-load-differs", entry=entry, got=_trim(got),
                            expected=_trim(want))
                break
            sf = sf2
            model = simfile_from_plain(got)
            res.stats["probe:restart:" + entry] += 1
            res.note("restart", fmt, entry, len(model.items), len(model.charts))
            continue
        try:
            r = ops.apply_op(sf, model, op, strings, lib, fmt)
        except (IndexError, KeyError, TypeError, AttributeError, ValueError) as e:
            # chart-list manipulation on shrunk scenarios; the library's own list
            # semantics are Python's
            if prop == "C18":
                raise
            res.stats["op-skipped"] += 1
            model = simfile_from_plain(ops.real_plain(sf, lib))
            continue
        if prop == "C18":
            if r is None:
                continue
            if idx < pre:
                continue
            if r[0] != r[1]:
                res.violate("C18", "operation-outcome-differs", at=idx, op=op, got=r[0],
                            expected=r[1], keys=_keys_of(model, op))
                break
            if companions is not None and not _read_companions(res, companions, idx):
                break
            if not check_c18_state(sc, res, sf, model, idx, op, lib, None):
                break
            res.evaluations += 1
            tgt = model.charts[op["i"]] if op.get("i") is not None and op["i"] < len(model.charts) \
                else model
            present = tuple(k in tgt.keys() for k in ("STOPS", "FREEZES", "BGCHANGES", "ANIMATIONS",
                                                      "NOTES", "NOTES2"))
            res.note("c18", cfg.get("obj"), prev_kind, name, op.get("key") or op.get("attr"),
                     present, r[1][0])
            prev_kind = name
        else:
            # C01/C02 judge saves on the live object; keep the model in step with it
            if r is not None and r[0] != r[1]:
                res.stats["op-outcome-mismatch"] += 1
                model = simfile_from_plain(ops.real_plain(sf, lib))
    if not res.violations:
        if ops.real_plain(bystander, lib) != by_plain or str(bystander) != by_text:
            res.violate(prop, "another-object-changed", before=_trim(by_plain),
                        after=_trim(ops.real_plain(bystander, lib)))
    res.log(prop, [v.sig() for v in res.violations], sorted(res.stats.items()))
    return res


def _keys_of(model, op):
    i = op.get("i")
    if i is not None and 0 <= i < len(model.charts):
        return model.charts[i].keys()
    return model.keys()
