"""W-MUTATE: ``open_with_detected_encoding`` and ``mutate`` on a populated
simulated disk.  Fault-free configuration = C05, fault-enumerating = C06."""
import posixpath

from msdparser import MSDParserError

from .. import gen, models, ops
from ..core import RunResult, HarnessError, shash
from ..facades import Facade, make_disk

NATIVE_LIKE = ("native", "realos")


def _tf(cfg):
    """The facade as far as newline translation goes: the caller's newline="" (keyword
    arguments are passed to open()) switches universal newlines off on the native path."""
    if cfg.get("newline") == "empty":
        return "as-stored"
    if "newline" in (cfg.get("explicit_defaults") or ()):
        return "native"       # newline=None spelled out: universal newlines on a PyFilesystem too
    return cfg["facade"]
from ..models import (LoadError, RefSimfile, ref_encoding, ref_load, universal_newlines,
                      DEFAULT_ENCODINGS, dep_roundtrip_ok, gap_classes, ref_emit, serialisable)
from ..simdisk import (SimDisk, SimKill, InvariantViolation, InjectedOSError, OPEN_W, OPEN_R,
                       WRITE, READ, CLOSE, SEEK, norm, WRITE_SIDE)

PROPS = ("C05", "C06")


class BodyError(Exception):
    """custom Exception subclass raised by the simulated caller"""


class BodyBase(BaseException):
    """custom BaseException subclass raised by the simulated caller"""


class FalsyError(Exception):
    """an exception object that is falsy (an aggregate of zero problems)"""

    def __len__(self):
        return 0


class FalsyBase(BaseException):
    def __bool__(self):
        return False


def _exc_makers(lib):
    """name -> factory of the exception object the simulated caller raises.  Besides
    the classes, the *value* matters to an implementation that looks inside: an exit
    status of 0 or None, an OSError / UnicodeError like the ones saving itself can meet."""
    import errno
    return {"ValueError": lambda: ValueError("body-raise"), "KeyError": lambda: KeyError("body-raise"),
            "BodyError": lambda: BodyError("body-raise"),
            "KeyboardInterrupt": lambda: KeyboardInterrupt("body-raise"),
            "SystemExit": lambda: SystemExit("body-raise"),
            "SystemExit0": lambda: SystemExit(0), "SystemExitNone": lambda: SystemExit(),
            "SystemExit1": lambda: SystemExit(1),
            "BodyBase": lambda: BodyBase("body-raise"), "GeneratorExit": lambda: GeneratorExit("body-raise"),
            "StopIteration": lambda: StopIteration("body-raise"),
            "RuntimeError": lambda: RuntimeError("body-raise"),
            "OSError": lambda: OSError(errno.ENOSPC, "body-raise"),
            "FileNotFoundError": lambda: FileNotFoundError(errno.ENOENT, "body-raise"),
            "UnicodeEncodeError": lambda: UnicodeEncodeError("ascii", "\u3042", 0, 1, "body-raise"),
            "UnicodeDecodeError": lambda: UnicodeDecodeError("utf-8", b"\xff", 0, 1, "body-raise"),
            "FalsyError": lambda: FalsyError("body-raise"), "FalsyBase": lambda: FalsyBase("body-raise"),
            "CancelMutation": lambda: lib.simfile.CancelMutation("body-raise")}


# StopIteration / RuntimeError / GeneratorExit are the classes a generator-based context
# manager treats specially (PEP 479); they are Exception / BaseException subclasses like any other
EXC_NAMES = ["ValueError", "KeyError", "BodyError", "KeyboardInterrupt", "SystemExit", "SystemExit0",
             "SystemExitNone", "SystemExit1", "BodyBase", "StopIteration", "RuntimeError",
             "GeneratorExit", "OSError", "FileNotFoundError", "UnicodeEncodeError",
             "UnicodeDecodeError", "FalsyError", "FalsyBase", "CancelMutation"]
ERRNO_NAMES = ["EIO", "ENOSPC", "EACCES"]


# ------------------------------------------------------------------ generate
def _kind_of_name(name):
    suffix = name.lower().rpartition(".")[2]
    return {"sm": "sm", "ssc": "ssc"}.get(suffix)


def generate(prop, rng, run, tier):
    fmt = rng.choice(["sm", "ssc"])
    facade = gen.wchoice(rng, [("simfs", 46), ("native", 46), ("memoryfs", 4), ("realos", 4)]) \
        if prop == "C05" else rng.choice(["simfs", "native"])
    # encoding of the stored file
    enc = gen.wchoice(rng, [("utf-8", 3), ("cp1252", 2), ("cp932", 2), ("cp949", 2), ("ascii", 1)])
    profile = "plain" if enc == "ascii" else "enc:" + enc
    text = gen.gen_simfile_text(rng, fmt, profile, messy=rng.choice([0.0, 0.0, 0.3]))
    if rng.random() < 0.25:
        text = text.replace("\n", "\r\n")
    if rng.random() < 0.08:
        text = "\ufeff" + text
    codec = "utf-8" if enc == "ascii" else enc
    try:
        data = text.encode(codec)
    except UnicodeEncodeError:
        data = text.encode(codec, "ignore")
    if prop == "C05" and rng.random() < 0.06 and len(data) > 3:
        # an unterminated last value / a multi-byte character cut off at the very end
        data = data.rstrip(b";\r\n").rstrip(b"\\")     # (a trailing unpaired backslash is excluded: C03)
        if rng.random() < 0.6:
            data = data[:len(data) - rng.randint(0, 2)] + rng.choice(
                [b"\xc3", b"\xe3\x81", b"\xe9", b"\x82", b"\xf0\x9d\x84", b""])
    # try list
    r = rng.random()
    if r < 0.6:
        try_enc = None
    elif r < 0.8:
        try_enc = list(DEFAULT_ENCODINGS)
        rng.shuffle(try_enc)
    else:
        try_enc = rng.sample(["utf-8", "cp1252", "cp932", "cp949", "ascii", "latin-1",
                              # aliases and relatives: what is reported is the listed name, what
                              # decodes is what Python's codec of that name decodes
                              "korean", "euc_kr", "shift_jis", "windows-1252", "utf8", "latin1",
                              "big5", "gbk", "cp437"],
                             rng.randint(1, 3))
    if prop == "C05" and rng.random() < 0.06:
        # invalid everywhere (for the UnicodeDecodeError clause)
        data = data + rng.choice([b"\x81\x20\xff", b"\xff\xfe\x81", b"\x80\x81\xff\xfd"])
        if try_enc and "latin-1" in try_enc:
            try_enc.remove("latin-1")
            try_enc = try_enc or None
    det = ref_encoding(data, try_enc or DEFAULT_ENCODINGS)
    if det not in (None, "ascii", "latin-1"):
        profile = "enc:" + det      # edit values from the repertoire the file is detected in
    elif det == "latin-1":
        profile = "enc:cp1252" if rng.random() < 0.5 else "plain"
    ext = "." + fmt
    if rng.random() < 0.2:
        ext = rng.choice([ext.upper(), ext.capitalize()])
    song = rng.choice(["Song", "S o n g", "song.sm", "x"])
    d = "/Pack/" + song
    inp = d + "/" + rng.choice(["a", "Step", "my song"]) + ext
    files = {inp: data.hex()}
    others = {d + "/audio.ogg": b"OggS\x00\x01", d + "/bn.png": b"\x89PNG", "/Pack/readme.txt": b"hi\n",
              d + "/other" + ext: b"#TITLE:other;\n"}
    for p, b in others.items():
        if rng.random() < 0.6:
            files[p] = b.hex()
    # neighbours whose names an implementation might use for scratch files
    for suffix in (".tmp", ".bak", "~", ".new", ".old", ".swp", ".part"):
        if rng.random() < 0.12:
            files[inp + suffix] = ("neighbour " + suffix).encode().hex()
    r = rng.random()
    if r < 0.45:
        out = None
    elif r < 0.7:
        out = d + "/out" + ext
    elif r < 0.85:
        out = d + "/out" + ext
        files[out] = b"#TITLE:old output;\n".hex()
        if rng.random() < 0.3:
            files[out + rng.choice([".tmp", ".bak", "~", ".new"])] = b"neighbour of output".hex()
    elif r < 0.90:
        out = inp                      # output name equal to the input name
    elif r < 0.94:
        i = inp.rfind("/")             # the same file under another spelling
        out = rng.choice([inp[:i] + "/./" + inp[i + 1:], inp[:i] + "//" + inp[i + 1:],
                          d + "/../" + song + "/" + inp[i + 1:]])
    else:
        out = "/Pack/elsewhere" + ext
    r = rng.random()
    if r < 0.4:
        bak = None
    elif r < 0.7:
        bak = inp + rng.choice([".bak", ".bak", ".tmp", ".old", "~"])
    elif r < 0.85:
        bak = d + "/backup" + ext + ".old"
        files[bak] = b"stale backup".hex()
    elif r < 0.92:
        bak = inp                      # refused
    elif r < 0.97 and out:
        bak = out                      # refused
    else:
        bak = ""                       # falsy: no backup
    if bak and bak not in (inp, out) and rng.random() < 0.06:
        # a distinct file whose name is contained in the input's name
        bak = rng.choice([inp[:-1], inp[:inp.rfind(".")]])
    bare = []
    if rng.random() < 0.06:
        # a bare name (no directory part) for the output or the backup while the input has
        # one: it names a file in the working directory / the root of the filesystem
        if rng.random() < 0.5:
            # (not when the backup was derived from the old output name or spells the input)
            if not bak or (norm(bak) != norm(inp) and bak != out):
                out = "/bare-out" + ext
                bare.append(out)
        else:
            bak = "/bare-backup" + ext
            bare.append(bak)
    if prop == "C06" and rng.random() < 0.08:
        # a destination whose parent directory does not exist: the save fails at the open
        # for writing - and a body that raises must still leave the whole tree untouched
        if rng.random() < 0.5:
            out = d + "/newdir/out" + ext
        else:
            bak = "/Pack/NoSuchDir/deep/backup" + ext
    if bak and bak not in (inp, out) and (norm(bak) == norm(inp) or (out and norm(bak) == norm(out))):
        # the backup name spells the input or output file differently (left over when the
        # output name it was copied from was replaced above): the library compares names, not
        # files, so such a backup legitimately overwrites that file - outside the domain
        bak = None
    # the edit script; values from the repertoire of the encoding the file will be
    # detected in (so that the run stays a C05 run) unless a spoil is planned
    n_ops = rng.randint(0, 6)
    nch = text.count("#NOTES:") if fmt == "sm" else text.count("#NOTEDATA")
    edit = []
    for _ in range(n_ops):
        op = gen.gen_edit_op(rng, fmt, profile, nch)
        edit.append(op)
        if op["op"] in ("charts_append", "charts_insert"):
            nch += 1
    edit = gen.flatten_ops(edit)
    if prop == "C05" and rng.random() < 0.03 and _composable_unencodable(det or ""):
        # an edit the code page cannot hold as it stands (its NFC form could): the save fails
        edit.append({"op": "set_key", "key": "SUBTITLE", "value": "x" + _composable_unencodable(det)})
    if rng.random() < 0.08:
        # somebody else rewrites the input file on disk while the block runs (a nested
        # mutate, another program): what was read at block entry is what counts
        other = gen.gen_simfile_text(rng, fmt, "plain", nparams=2, ncharts=0)
        edit.insert(rng.randint(0, len(edit)), {"op": "external_write",
                                               "hex": other.encode("utf-8").hex()})
    sc = {"workload": "mutate", "property": prop,
          "config": {"facade": facade, "fmt": fmt, "input": inp, "output": out, "backup": bak,
                     "try_encodings": try_enc, "strict": rng.random() < 0.7},
          "world": {"dirs": ["/Pack", d, "/Pack/Empty"], "files": files},
          "ops": edit}
    cfg = sc["config"]
    if bare and out != bak:
        cfg["bare"] = [b for b in bare if b in (out, bak)]
    if rng.random() < 0.5:
        cfg["buffering"] = rng.choice([2, 7, 16, 64, 512, 4096])
    if rng.random() < 0.5:
        cfg["short_reads"] = rng.randint(1, 10 ** 6)
    if rng.random() < 0.4:
        cfg["short_writes"] = rng.randint(1, 10 ** 6)
    if rng.random() < 0.3:
        cfg["spelling"] = rng.choice(["dslash", "dot", "rel"])
    if facade in NATIVE_LIKE and rng.random() < 0.08:
        # the files are named through a symbolic link to a directory followed by '..': the
        # OS follows the link first, so '..' is the parent of the link's *target* (/Pack);
        # collapsing 'lnk/..' lexically names /Elsewhere/... instead
        cfg["spelling"] = "symlink"
        sc["world"]["symlinks"] = {"/Elsewhere/lnk": "/Pack/Empty"}
        sc["world"]["dirs"].append("/Elsewhere")
        if rng.random() < 0.5:
            sc["world"]["dirs"].append("/Elsewhere/" + song)     # the lexical reading exists too
    if rng.random() < 0.3:
        cfg["raw_readers"] = True     # binary read streams of the PyFilesystem are raw (short reads)
    if rng.random() < 0.15:
        cfg["newline"] = "empty"      # passed to open(): line breaks as stored, also on the native path
    if rng.random() < 0.15:
        # keyword arguments spelled out with the values they default to (a wrapper that
        # forwards its own defaults): errors=None, newline=None, buffering=-1
        cfg["explicit_defaults"] = rng.sample(["errors", "newline", "buffering"], rng.randint(1, 3))
    if prop == "C06" and text.isascii() and rng.random() < 0.5:
        # keyword arguments are passed to open(): a caller-chosen error handler
        cfg["errors"] = rng.choice(["replace", "ignore", "strict", "backslashreplace", "surrogateescape",
                                    "surrogatepass", "xmlcharrefreplace", "namereplace"])
    if prop == "C05":
        cfg["followup_noop"] = True
        if rng.random() < 0.35:
            # history: the same file NAME held other content (another encoding) when it
            # was opened earlier in the same process
            denc = rng.choice(["utf-8", "cp1252", "cp932", "cp949"])
            dtext = gen.gen_simfile_text(rng, fmt, "enc:" + denc, nparams=3, ncharts=0)
            try:
                cfg["decoy"] = dtext.encode(denc).hex()
            except UnicodeEncodeError:
                pass
            if rng.random() < 0.2:
                # ... or was a "Unicode" (UTF-16 with byte order mark) file
                le = rng.random() < 0.5
                cfg["decoy"] = ((b"\xff\xfe" if le else b"\xfe\xff") +
                                "#TITLE:x;\n".encode("utf-16-le" if le else "utf-16-be")).hex()
        if rng.random() < 0.3:
            cfg["explicit_encoding"] = rng.choice(["utf-8", "cp1252", "cp932", "cp949", "latin-1"])
    return sc


def fixed_scenarios(prop):
    """The core matrix that is always enumerated regardless of seed:
    2 formats x 2 façades x {no output, new output, existing output}
    x {no backup, new backup, existing backup}."""
    out = []
    texts = {
        "sm": "#TITLE:t;\n#ARTIST:a;\n#BPMS:0=120;\n#NOTES:\n     dance-single:\n     :\n     Easy:\n     1:\n     0,0:\n0000\n;\n",
        "ssc": "#VERSION:0.83;\n#TITLE:t;\n#NOTEDATA:;\n#STEPSTYPE:dance-single;\n#NOTES:\n0000\n;\n",
    }
    for fmt in ("sm", "ssc"):
        for facade in ("simfs", "native"):
            for oc in ("none", "new", "existing"):
                for bc in ("none", "new", "existing"):
                    d = "/Pack/Song"
                    inp = d + "/a." + fmt
                    files = {inp: texts[fmt].encode().hex(), d + "/audio.ogg": b"OggS".hex()}
                    o = None if oc == "none" else d + "/out." + fmt
                    b = None if bc == "none" else inp + ".bak"
                    if oc == "existing":
                        files[o] = b"#TITLE:old;\n".hex()
                    if bc == "existing":
                        files[b] = b"stale".hex()
                    out.append({"workload": "mutate", "property": prop, "fixed": True,
                                "config": {"facade": facade, "fmt": fmt, "input": inp, "output": o,
                                           "backup": b, "try_encodings": None, "strict": True,
                                           "buffering": 16,
                                           "followup_noop": prop == "C05"},
                                "world": {"dirs": ["/Pack", d], "files": files},
                                "ops": [{"op": "set_attr", "attr": "title", "value": "new title"},
                                        {"op": "set_key", "key": "CUSTOM", "value": "x:y;z"}]})
    if prop == "C05":
        # fixed probe for the known finding (so that its KNOWN-FINDING line does not
        # depend on the seed): cp1252 file with a key whose upper-case form leaves cp1252
        for facade in ("simfs", "native"):
            out.append({"workload": "mutate", "property": "C05", "fixed": "kf:uppercased-key",
                        "config": {"facade": facade, "fmt": "sm", "input": "/Pack/Song/a.sm",
                                   "output": None, "backup": None, "try_encodings": None,
                                   "strict": True, "followup_noop": False},
                        "world": {"dirs": ["/Pack/Song"],
                                  "files": {"/Pack/Song/a.sm": "#TITLE:caf\u00e9;\n#\u00b5:x;\n"
                                            .encode("cp1252").hex()}},
                        "ops": []})
    return out


# ------------------------------------------------------------------- running
class Outcome:
    pass


def _spell(path, how):
    if how == "dslash":
        return path.replace("/", "//", 2).replace("///", "//") if path.count("/") > 1 else path
    if how == "dot":
        i = path.rfind("/")
        return path[:i] + "/./" + path[i + 1:]
    if how == "rel":
        return path.lstrip("/")
    if how == "symlink" and path.startswith("/Pack/"):
        return "/Elsewhere/lnk/../" + path[len("/Pack/"):]
    return path


def run_once(sc, fault=None, body_raise=None, spoil=None, noop_on=None, hooks=None, faults=None):
    """Execute one mutate run.  body_raise = (position, exc name); spoil =
    {"what": "unserializable-int" | ...} appended to the edit script."""
    lib = ops.lib()
    cfg = sc["config"]
    disk_cfg = {"short_reads": cfg.get("short_reads"), "short_writes": cfg.get("short_writes"),
                "raw_readers": cfg.get("raw_readers")}
    disk = make_disk(sc["world"], disk_cfg, faults or ([fault] if fault else None), cfg["facade"])
    o = Outcome()
    o.disk = disk
    o.before = disk.snapshot()
    o.escaped = None
    o.raised_obj = None
    o.entered = False
    o.entry_plain = None
    o.exit_plain = None
    o.model_exit = None
    o.op_mismatch = None
    o.invariant = None
    o.external = None
    spelling = cfg.get("spelling")
    if spelling == "symlink" and (cfg["facade"] not in NATIVE_LIKE or not sc["world"].get("symlinks")):
        spelling = None       # (a shrunk scenario: links exist on the native path only)
    inp = cfg["input"] if noop_on is None else noop_on
    out = cfg.get("output") if noop_on is None else None
    bak = cfg.get("backup") if noop_on is None else None
    bare = set(cfg.get("bare") or ())

    def _sp(path):
        if path in bare:
            return path.lstrip("/")          # genuinely relative: needs relative=True below
        return _spell(path, spelling)
    kw = {}
    if cfg.get("try_encodings") is not None:
        kw["try_encodings"] = list(cfg["try_encodings"])
    if cfg.get("buffering") is not None and cfg["buffering"] >= 2:
        kw["buffering"] = cfg["buffering"]
    if cfg.get("errors"):
        kw["errors"] = cfg["errors"]
    if cfg.get("newline") == "empty":
        kw["newline"] = ""
    for name in cfg.get("explicit_defaults") or ():
        kw.setdefault(name, -1 if name == "buffering" else None)
    kw["strict"] = bool(cfg.get("strict", True))
    if hooks:
        disk.on_open_w = hooks.get("on_open_w")
    strings = ops.Strings()
    excs = _exc_makers(lib)
    edit = sc["ops"] if noop_on is None else []
    model = None
    with Facade(cfg["facade"], disk, relative=(spelling == "rel" or bool(bare))) as fa:
        kw.update(fa.kw)
        try:
            with lib.simfile.mutate(fa.p(_sp(inp)),
                                    fa.p(_sp(out)) if out else out,
                                    fa.p(_sp(bak)) if bak else bak, **kw) as sf:
                o.entered = True
                o.events_at_entry = len(disk.events)
                o.entry_plain = ops.real_plain(sf, lib)
                o.sf_class = type(sf).__name__
                model = models.simfile_from_plain(o.entry_plain)
                fmt = model.kind
                for i, op in enumerate(edit):
                    if body_raise is not None and body_raise[0] == i:
                        o.raised_obj = excs[body_raise[1]]()
                        o.raised_args = o.raised_obj.args
                        raise o.raised_obj
                    if op["op"] == "external_write":
                        if hasattr(disk, "faults"):          # simulated disk only
                            disk.files[norm(inp)] = bytearray(bytes.fromhex(op["hex"]))
                            o.external = bytes.fromhex(op["hex"])
                        continue
                    res = ops.apply_op(sf, model, op, strings, lib, fmt)
                    if res is not None and res[0] != res[1] and o.op_mismatch is None:
                        o.op_mismatch = (i, op, res)
                if body_raise is not None and body_raise[0] >= len(edit):
                    o.raised_obj = excs[body_raise[1]]()
                    o.raised_args = o.raised_obj.args
                    raise o.raised_obj
                if spoil is not None:
                    _apply_spoil(sf, model, spoil, lib)
                o.exit_plain = ops.real_plain(sf, lib)
                o.model_exit = model
                o.events_at_exit = len(disk.events)
        except InvariantViolation as e:
            o.invariant = e
            o.escaped = e
        except BaseException as e:      # noqa: the simulated caller sees everything
            if isinstance(e, HarnessError):
                raise
            o.escaped = e
        o.after = disk.snapshot()
    return o


def _apply_spoil(sf, model, spoil, lib):
    what = spoil["what"]
    if what == "int-value":
        sf["TITLE"] = 7
        model.set("TITLE", 7)
    elif what == "bytes-value":
        sf["ARTIST"] = b"x"
        model.set("ARTIST", b"x")
    elif what == "chart-without-notes":
        c = lib.SSCChart()
        c["STEPSTYPE"] = "dance-single"
        sf.charts.append(c)
        model.charts.append(models.RefSSCChart([["STEPSTYPE", "dance-single"]]))
    elif what == "unencodable":
        ch = spoil["char"]
        where = spoil.get("where", "late")
        if where == "early" and model.items:
            k = model.items[0][0]
            v = (model.items[0][1] or "") + ch
            sf[k] = v
            model.set(k, v)
        elif where == "key":
            sf["K" + ch.upper()] = "x"
            model.set("K" + ch.upper(), "x")
        elif where in ("extradata", "chart-field", "chart-notes") and model.charts:
            c, mc = sf.charts[-1], model.charts[-1]
            if where == "extradata" and isinstance(mc, models.RefSMChart):
                c.extradata = ["e", "x" + ch]
                mc.extra = ["e", "x" + ch]
            elif where == "chart-notes":
                c.notes = "0000" + ch
                mc.set(mc.attr_key("notes"), "0000" + ch)
            else:
                c.description = "d" + ch
                mc.set("DESCRIPTION", "d" + ch)
        else:
            sf["ZZLAST"] = "x" + ch
            model.set("ZZLAST", "x" + ch)
    else:
        raise HarnessError("unknown spoil %r" % (what,))


# -------------------------------------------------------------------- oracles
def _changed_paths(before, after):
    bf, bd = before
    af, ad = after
    ch = set()
    for p in set(bf) | set(af):
        if bf.get(p) != af.get(p):
            ch.add(p)
    for d in set(bd) ^ set(ad):
        ch.add(d)
    return ch


def _expect_entry(sc, data, facade):
    """Reference: (enc, kind, model or LoadError or None when nothing decodes)."""
    cfg = sc["config"]
    try_list = cfg.get("try_encodings")
    if try_list is None:
        try_list = DEFAULT_ENCODINGS
    enc = ref_encoding(data, try_list)
    if enc is None:
        return None, None, None
    text = data.decode(enc)
    if facade in NATIVE_LIKE:
        text = universal_newlines(text)
    tail = len(text) - len(text.rstrip("\\"))
    if tail % 2 == 1:
        # a text ending in an unpaired backslash is excluded (msdparser fails an internal
        # assertion on it: known finding under C03)
        return enc, None, LoadError("ExcludedTrailingBackslash")
    kind = models.ref_detect(cfg["input"], text, True)   # detection ignores nothing here: see C03
    if isinstance(kind, LoadError):
        return enc, None, kind
    m = ref_load(text, kind, bool(cfg.get("strict", True)))
    return enc, kind, m


def _entry_matches(real_plain, data, enc, kind, strict, facade):
    """Does the loaded simfile equal the documented loading rules applied to the decoded
    text?  Two things are accepted either way because the statement leaves them open:
    a key-only ATTACKS/DISPLAYBPM as None or '', and - on the native path - line breaks
    translated by Python's text mode or kept as stored ("text-mode newline translation is
    not the library's")."""
    raw = data.decode(enc)
    texts = [universal_newlines(raw) if facade in NATIVE_LIKE else raw]
    if facade in NATIVE_LIKE and "\r" in raw:
        texts.append(raw)
    for t in texts:
        for km in (None, ""):
            m = ref_load(t, kind, strict, km)
            if not isinstance(m, LoadError) and real_plain == m.plain():
                return True
    return False


def _undecodable_outcome_ok(sc, data, err, facade):
    """Nothing in the tried list decodes the file.  The statement says UnicodeDecodeError is
    raised *only* then; it does not say which error wins when the part of the file that does
    decode is itself unloadable (a malformed chart, stray text under strict parsing) - an
    implementation that parses while it reads meets that error first.  Accepted: a
    UnicodeDecodeError, or the load error the reference gives for the file decoded leniently
    under one of the tried encodings.  Never: success, or anything else."""
    if isinstance(err, UnicodeDecodeError):
        return True
    if err is None:
        return False
    cfg = sc["config"]
    for e in (cfg.get("try_encodings") or DEFAULT_ENCODINGS):
        try:
            text = data.decode(e, "replace")
        except LookupError:
            continue
        if facade in NATIVE_LIKE:
            text = universal_newlines(text)
        for cut in (text, text[:text.find("\ufffd")] if "\ufffd" in text else text):
            kind = models.ref_detect(cfg["input"], cut, bool(cfg.get("strict", True)))
            m = kind if isinstance(kind, LoadError) else ref_load(cut, kind, bool(cfg.get("strict", True)))
            if isinstance(m, LoadError) and m.exc == type(err).__name__:
                return True
    return False


def _parse_file(data, enc, kind):
    try:
        text = data.decode(enc)
    except UnicodeDecodeError:
        return LoadError("UnicodeDecodeError")
    return ref_load(text, kind, True)


def _in_domain(model, enc, facade):
    """Is the block-exit simfile inside the C05 domain (serialisable, encodable in
    the detected encoding, no bare CR, outside msdparser's escaping gaps)?"""
    if not serialisable(model):
        return False, "unserialisable"
    params = ref_emit(model)
    for p in params:
        for c in p:
            if "\r" in c.replace("\r\n", ""):
                return False, "bare-cr"
            if facade in NATIVE_LIKE and "\r" in c:
                return False, "cr-native"
            if not gen.encodable(c, enc):
                return False, "unencodable"
            if not gen.codec_roundtrips(c, enc):
                return False, "codec-not-roundtripping"
    for k in model.keys():
        if k != k.upper():
            return False, "lower-key"
    if model.kind == "sm":
        if model.has("NOTES"):
            return False, "notes-key"
        for c in model.charts:
            for _, v in c.items:
                if v != v.strip():
                    return False, "unstripped-field"
    else:
        if model.has("NOTEDATA"):
            return False, "notedata-key"
        for c in model.charts:
            if c.has("NOTEDATA") or c.notes_key() is None:
                return False, "chart-domain"
            if c.has("NOTES") and c.has("NOTES2"):
                return False, "both-notes"
            for k in c.keys():
                if k != k.upper():
                    return False, "lower-key"
    if not dep_roundtrip_ok(params):
        return False, "dep-gap"
    return True, ""


def _exit_expect_plain(model):
    return model.normalised_plain()


def check_c05(sc, res):
    """Fault-free run, normal exit."""
    lib = ops.lib()
    cfg = sc["config"]
    facade = cfg["facade"]
    inp = norm(cfg["input"])
    out = cfg.get("output")
    bak = cfg.get("backup")
    world_files = {norm(p): bytes.fromhex(h) for p, h in sc["world"]["files"].items()}
    data = world_files.get(inp)
    if data is None:
        return
    P = "C05"
    # --- clause 3: clashing backup name refused before any storage call
    if bak and bak in (cfg["input"], out):
        o = run_once(sc)
        res.evaluations += 1
        res.stats["probe:backup-clash"] += 1
        if not isinstance(o.escaped, ValueError) or o.entered:
            res.violate(P, "backup-clash-not-refused", escaped=repr(o.escaped))
        elif any(e[1] in WRITE_SIDE for e in o.disk.events):
            # "refused before anything is written": reading first would be allowed
            res.violate(P, "backup-clash-refused-after-write-calls",
                        events=[e[1] for e in o.disk.events][:12])
        elif _changed_paths(o.before, o.after):
            res.violate(P, "backup-clash-changed-disk")
        res.note("clash", facade, cfg["fmt"], bool(out))
        return
    if cfg.get("decoy"):
        ddata = bytes.fromhex(cfg["decoy"])
        dsc = dict(sc)
        dsc["config"] = dict(cfg, explicit_encoding=None)
        dfiles = dict(sc["world"]["files"])
        dfiles[cfg["input"]] = cfg["decoy"]
        dsc["world"] = dict(sc["world"], files=dfiles)
        denc, dkind, dexpect = _expect_entry(dsc, ddata, _tf(cfg))
        if not (isinstance(dexpect, LoadError) and dexpect.exc == "ExcludedTrailingBackslash"):
            _check_open(dsc, res, ddata, denc, dkind, dexpect)
        res.stats["probe:decoy-content-opened-first"] += 1
        if res.violations:
            return
    facade = _tf(cfg)
    enc, kind, expect = _expect_entry(sc, data, facade)
    if isinstance(expect, LoadError) and expect.exc == "ExcludedTrailingBackslash":
        res.stats["outside-domain:trailing-unpaired-backslash"] += 1
        return
    # --- clause 1: open_with_detected_encoding / open(encoding=)
    _check_open(sc, res, data, enc, kind, expect)
    if res.violations:
        return
    o = run_once(sc)
    res.evaluations += 1
    res.steps += len(o.disk.events) + len(sc["ops"])
    res.log("c05", o.disk.log_digest(), repr(type(o.escaped)))
    for k, v in o.disk.buggify.items():
        if v:
            res.stats["buggify:" + k] += v
    if enc is None:
        res.stats["probe:nothing-decodes"] += 1
        if not _undecodable_outcome_ok(sc, data, o.escaped, facade):
            res.violate(P, "undecodable-not-unicodedecodeerror", escaped=repr(o.escaped))
        elif _changed_paths(o.before, o.after):
            res.violate(P, "undecodable-changed-disk")
        res.note("undecodable", facade)
        return
    if isinstance(expect, LoadError):
        res.stats["probe:load-error:" + expect.exc] += 1
        if o.escaped is None or type(o.escaped).__name__ != expect.exc:
            res.violate(P, "load-error-mismatch", expected=expect.exc, escaped=repr(o.escaped))
        elif _changed_paths(o.before, o.after):
            res.violate(P, "load-error-changed-disk")
        res.note("loaderr", facade, expect.exc)
        return
    if not o.entered:
        if bak and not serialisable(expect):
            # the stored simfile itself cannot be serialised (an SSC chart without note
            # data): the backup copy taken at block entry fails - C06's domain, not C05's
            res.stats["outside-domain:entry-unserialisable"] += 1
            return
        res.violate(P, "load-failed", escaped=repr(o.escaped), enc=enc)
        return
    if o.entry_plain != expect.plain():
        if not _entry_matches(o.entry_plain, data, enc, kind, bool(cfg.get("strict", True)), facade):
            res.violate(P, "loaded-simfile-differs", enc=enc, got=o.entry_plain, expected=expect.plain())
            return
        res.stats["probe:loaded-simfile-accepted-variant"] += 1
    if o.sf_class != ("SSCSimfile" if kind == "ssc" else "SMSimfile"):
        res.violate(P, "loaded-class", got=o.sf_class, kind=kind)
        return
    if o.op_mismatch is not None:
        # attribute/key semantics inside the block are C18's business; do not judge here
        res.stats["op-outcome-mismatch"] += 1
    model_entry = models.simfile_from_plain(o.entry_plain)
    model_exit = o.model_exit
    if model_exit is None:
        res.violate(P, "body-did-not-finish", escaped=repr(o.escaped))
        return
    ok, why = _in_domain(model_exit, enc, facade)
    ok_entry, why_entry = _in_domain(model_entry, enc, facade)
    if bak and not ok_entry:
        ok, why = False, "entry-" + why_entry
    if not ok:
        res.stats["outside-domain:" + why] += 1
        if why in ("unencodable", "entry-unencodable"):
            # In-domain special case: every unencodable string is a key that was
            # already in the file and left the code page only because loading
            # upper-cases keys (cp1252 'µ' -> Greek capital mu).  The file content is
            # inside the quantifier, the save fails: reported, and listed as a known finding.
            entry_keys = {p[0] for p in ref_emit(model_entry)}
            bad = [(i == 0, c) for p in ref_emit(model_exit) for i, c in enumerate(p)
                   if not gen.encodable(c, enc)]
            if bad and all(is_key and c in entry_keys for is_key, c in bad) \
                    and isinstance(o.escaped, UnicodeEncodeError):
                res.violate(P, "save-raised", kf_class="uppercased-key-outside-codepage",
                            enc=enc, key=bad[0][1], escaped=repr(o.escaped))
        if why == "unencodable" and o.escaped is None:
            # the block exited normally although the simfile at block exit cannot be written
            # in the encoding it was read in: whatever was saved, it does not parse to that
            # simfile (a failing save is C06's business, a "successful" one is this clause's)
            res.violate(P, "unencodable-simfile-saved-normally", enc=enc)
        return
    if o.escaped is not None:
        res.violate(P, "save-raised", escaped=repr(o.escaped), enc=enc)
        return
    out_path = norm(out) if out else inp
    after_files = o.after[0]
    if out_path not in after_files:
        res.violate(P, "output-file-not-written", output=out_path, ops=len(sc["ops"]))
        return
    if bak and norm(bak) not in after_files:
        res.violate(P, "backup-file-not-written", backup=norm(bak), ops=len(sc["ops"]))
        return
    if out and out_path != inp and out_path in o.before[0] and after_files[out_path] == o.before[0][out_path] \
            and _parse_file(after_files[out_path], enc, kind).__class__ is not LoadError \
            and _parse_file(after_files[out_path], enc, kind).plain() != _exit_expect_plain(model_exit):
        res.violate(P, "stale-output-left-in-place", output=out_path)
        return
    # output parses to the simfile at block exit, in the encoding it was read in
    got = _parse_file(after_files.get(out_path, b""), enc, kind)
    if isinstance(got, LoadError) or got.plain() != _exit_expect_plain(model_exit):
        res.violate(P, "output-differs", enc=enc,
                    got=got.plain() if not isinstance(got, LoadError) else repr(got),
                    expected=_exit_expect_plain(model_exit))
        return
    if bak:
        bpath = norm(bak)
        gotb = _parse_file(after_files.get(bpath, b""), enc, kind)
        if isinstance(gotb, LoadError) or gotb.plain() != _exit_expect_plain(model_entry):
            res.violate(P, "backup-differs", enc=enc,
                        got=gotb.plain() if not isinstance(gotb, LoadError) else repr(gotb),
                        expected=_exit_expect_plain(model_entry))
            return
        res.stats["probe:backup-written"] += 1
    if out and out_path != inp and after_files.get(inp) not in (data, o.external):
        res.violate(P, "input-touched-although-output-given")
        return
    allowed = {out_path} | ({norm(bak)} if bak else set())
    if o.external is not None:
        allowed = allowed | {inp}        # rewritten by the other program, not by the library
    extra = _changed_paths(o.before, o.after) - allowed
    if extra:
        res.violate(P, "other-paths-changed", paths=sorted(extra))
        return
    tshape = tuple(e[1] for e in o.disk.events)
    res.note("ok", facade, kind, enc, bool(out), bool(bak), shash(tshape) & 0xffff,
             len(sc["ops"]), cfg.get("buffering"))
    res.stats["probe:enc:" + enc] += 1
    res.stats["probe:facade:" + facade] += 1
    if len(data) > 8192:
        res.stats["probe:multi-chunk-file"] += 1
    if cfg.get("spelling") == "symlink" and sc["world"].get("symlinks") and facade in NATIVE_LIKE:
        res.stats["probe:named-through-symlink-dotdot"] += 1
    # --- clause 4: a no-op mutate on the written file leaves its bytes unchanged
    if cfg.get("followup_noop"):
        written = after_files[out_path]
        try_list = cfg.get("try_encodings") or DEFAULT_ENCODINGS
        enc2 = ref_encoding(written, try_list)
        sc2 = dict(sc)
        sc2["world"] = {"dirs": sorted(o.after[1]), "files": {p: b.hex() for p, b in after_files.items()},
                        "symlinks": sc["world"].get("symlinks")}
        # opening what was just written reports the first encoding that decodes *it*
        # (nothing remembered from the earlier opens of this name) and loads the exit simfile
        sc3 = dict(sc2)
        sc3["config"] = dict(cfg, input=out if out else cfg["input"], explicit_encoding=None)
        if enc2 is not None:
            k3 = models.ref_detect(sc3["config"]["input"], _decoded(written, enc2, facade), True)
            exp3 = k3 if isinstance(k3, LoadError) else \
                ref_load(_decoded(written, enc2, facade), k3, bool(cfg.get("strict", True)))
            nv = len(res.violations)
            _check_open(sc3, res, written, enc2, k3 if not isinstance(k3, LoadError) else None, exp3)
            if len(res.violations) > nv:
                for v in res.violations[nv:]:
                    v.clause = "after-save-" + v.clause
                return
        o2 = run_once(sc2, noop_on=out if out else cfg["input"])
        res.evaluations += 1
        if enc2 == enc:
            res.stats["probe:noop-same-encoding"] += 1
            if o2.escaped is not None:
                res.violate(P, "noop-mutate-raised", escaped=repr(o2.escaped))
            elif o2.after[0].get(out_path) != written:
                res.violate(P, "noop-mutate-changed-bytes", enc=enc,
                            before=written.hex(), after=o2.after[0].get(out_path, b"").hex())
            elif _changed_paths(o2.before, o2.after):
                res.violate(P, "noop-mutate-changed-other-paths")
        else:
            res.stats["probe:noop-other-encoding"] += 1


def _decoded(data, enc, facade):
    t = data.decode(enc)
    return universal_newlines(t) if facade in NATIVE_LIKE else t


def _check_open(sc, res, data, enc, kind, expect):
    """open_with_detected_encoding reports the first encoding that decodes and
    loads exactly that text; open(encoding=e) tries only e."""
    lib = ops.lib()
    cfg = sc["config"]
    P = "C05"
    disk = make_disk(sc["world"], {"short_reads": cfg.get("short_reads")}, None, cfg["facade"])
    kw = {"strict": bool(cfg.get("strict", True))}
    if cfg.get("try_encodings") is not None:
        kw["try_encodings"] = list(cfg["try_encodings"])
    nlkw = {"newline": ""} if cfg.get("newline") == "empty" else {}
    for name in cfg.get("explicit_defaults") or ():
        if name != "buffering":
            nlkw.setdefault(name, None)
    kw.update(nlkw)
    before = disk.snapshot()
    with Facade(cfg["facade"], disk) as fa:
        kw.update(fa.kw)
        try:
            got = lib.simfile.open_with_detected_encoding(fa.p(cfg["input"]), **kw)
            err = None
        except Exception as e:
            got, err = None, e
        res.evaluations += 1
        if enc is None:
            if not _undecodable_outcome_ok(sc, data, err, _tf(cfg)):
                res.violate(P, "open-undecodable-not-unicodedecodeerror", escaped=repr(err))
            elif not isinstance(err, UnicodeDecodeError):
                res.stats["probe:undecodable-file-failed-with-its-load-error"] += 1
        elif isinstance(expect, LoadError):
            if err is None or type(err).__name__ != expect.exc:
                res.violate(P, "open-load-error-mismatch", expected=expect.exc, escaped=repr(err))
        elif err is not None:
            res.violate(P, "open-raised", escaped=repr(err), enc=enc)
        else:
            sf, got_enc = got
            if got_enc != enc:
                res.violate(P, "detected-encoding", got=got_enc, expected=enc,
                            try_encodings=cfg.get("try_encodings"))
            else:
                gp = ops.real_plain(sf, lib)
                if gp != expect.plain() and not _entry_matches(
                        gp, data, enc, kind, bool(cfg.get("strict", True)), _tf(cfg)):
                    res.violate(P, "open-loaded-simfile-differs", enc=enc, got=gp,
                                expected=expect.plain())
        ee = cfg.get("explicit_encoding")
        if ee:
            try:
                sf = lib.simfile.open(fa.p(cfg["input"]), strict=kw["strict"], encoding=ee,
                                      **dict(fa.kw, **nlkw))
                err = None
            except Exception as e:
                sf, err = None, e
            res.evaluations += 1
            res.stats["probe:explicit-encoding"] += 1
            try:
                text = _decoded(data, ee, _tf(cfg))
            except UnicodeDecodeError:
                text = None
            if text is not None and (len(text) - len(text.rstrip("\\"))) % 2 == 1:
                pass      # excluded: ends in an unpaired backslash under this encoding
            elif text is None:
                sce = dict(sc, config=dict(cfg, try_encodings=[ee]))
                if not _undecodable_outcome_ok(sce, data, err, _tf(cfg)):
                    res.violate(P, "explicit-encoding-should-fail", encoding=ee, escaped=repr(err))
            else:
                k2 = models.ref_detect(cfg["input"], text, True)
                exp2 = k2 if isinstance(k2, LoadError) else ref_load(text, k2, kw["strict"])
                if isinstance(exp2, LoadError):
                    if err is None or type(err).__name__ != exp2.exc:
                        res.violate(P, "explicit-encoding-load-error-mismatch", encoding=ee,
                                    expected=exp2.exc, escaped=repr(err))
                elif err is not None:
                    res.violate(P, "explicit-encoding-raised", encoding=ee, escaped=repr(err))
                else:
                    gp = ops.real_plain(sf, lib)
                    if gp != exp2.plain() and not _entry_matches(gp, data, ee, k2, kw["strict"],
                                                                 _tf(cfg)):
                        res.violate(P, "explicit-encoding-loaded-differs", encoding=ee, got=gp,
                                    expected=exp2.plain())
        after = disk.snapshot()
    if _changed_paths(before, after):
        res.violate(P, "open-changed-disk")


# ------------------------------------------------------------------- C06
def _unencodable_char(enc):
    return {"utf-8": "\ud800", "ascii": "\u3042", "cp1252": "\u3042", "cp932": "\u00e9",
            "cp949": "\u00e9", "latin-1": "\u3042", "utf-16": "\ud800"}.get(enc, "\ud800")


def _composable_unencodable(enc):
    """Text the code page cannot hold as it stands although its NFC form could."""
    return {"cp1252": "e\u0301", "latin-1": "e\u0301", "cp932": "\u304b\u3099",
            "cp949": "\u1112\u1161\u11ab", "ascii": "e\u0301"}.get(enc)


def _encodes_under(text, enc, errors):
    try:
        text.encode(enc, errors or "strict")
        return True
    except (UnicodeEncodeError, LookupError):
        return False


def check_c06(sc, res):
    lib = ops.lib()
    cfg = sc["config"]
    facade = cfg["facade"]
    P = "C06"
    inp = norm(cfg["input"])
    out = cfg.get("output")
    bak = cfg.get("backup")
    world_files = {norm(p): bytes.fromhex(h) for p, h in sc["world"]["files"].items()}
    data = world_files.get(inp)
    if data is None:
        return
    if bak and bak in (cfg["input"], out):
        return        # refused up front: C05's clause
    only = sc.get("only")
    # ---- fault-free reference pass
    base = run_once(sc)
    res.evaluations += 1
    if not base.entered:
        res.stats["base-not-entered"] += 1
        return
    enc, kind, expect = _expect_entry(sc, data, _tf(cfg))
    if enc is None or isinstance(expect, LoadError):
        return
    model_entry = models.simfile_from_plain(base.entry_plain)
    entry_ok, _ = _in_domain(model_entry, enc, _tf(cfg))
    base_ok = base.escaped is None
    out_path = norm(out) if out else inp
    bak_path = norm(bak) if bak else None
    good_backup = base.after[0].get(bak_path) if (bak_path and base_ok) else None
    trace = list(base.disk.events)
    K = len(trace)
    for bk, bv in base.disk.buggify.items():
        if bv:
            res.stats["buggify:" + bk] += bv
    res.steps += K + len(sc["ops"])
    tshape = shash(tuple(e[1] for e in trace)) & 0xffffff
    shape = (facade, kind, enc, bool(out), out_path == inp, bool(bak), tshape)

    def backup_complete(files):
        """The backup parses (in the detected encoding) to the original simfile."""
        if not bak_path or bak_path not in files:
            return False
        got = _parse_file(files[bak_path], enc, kind)
        return (not isinstance(got, LoadError)) and got.plain() == model_entry.normalised_plain()

    def on_open_w(disk, p):
        # invariant while the run proceeds: when the output is opened for writing a
        # requested backup must already be closed and complete
        if bak_path and p == out_path and p != bak_path and entry_ok:
            if disk.open_handles.get(bak_path):
                raise InvariantViolation("output-opened-while-backup-open", {"k": disk.seq})
            if not backup_complete({q: bytes(b) for q, b in disk.files.items()}):
                raise InvariantViolation("output-opened-before-backup-complete", {"k": disk.seq})

    hooks = {"on_open_w": on_open_w}
    # the invariant must hold in the fault-free pass too (opening the output is a
    # point where saving can fail)
    if bak_path and entry_ok and base_ok and only is None:
        hb = run_once(sc, hooks=hooks)
        res.evaluations += 1
        if hb.invariant is not None:
            res.violate(P, hb.invariant.clause, sub="fault-free")
            for v in res.violations:
                v.detail.setdefault("only", {"sub": "fault-free"})
            return

    def generic_after(o, label, extra):
        """Oracles that hold for every failing or cancelled run."""
        files = o.after[0]
        if o.invariant is not None:
            res.violate(P, o.invariant.clause, sub=label, **extra)
            return False
        changed = _changed_paths(o.before, o.after)
        stray = changed - ({out_path} | ({bak_path} if bak_path else set()))
        if stray:
            # The property promises nothing about other paths once a save has failed (a
            # scratch file may be left behind by a kill): counted, not judged.  Only a body
            # that raises must leave the whole disk untouched (sub_body).
            res.stats["probe:other-paths-changed-after-failed-save"] += 1
        if out_path != inp and files.get(inp) not in (data, o.external):
            res.violate(P, "input-changed-although-output-given", sub=label, **extra)
            return False
        if files.get(inp) not in (data, o.external):
            # the input was (partly) overwritten: allowed only if the complete new
            # content was written, or a requested backup is complete
            if bak_path and entry_ok:
                if not backup_complete(files):
                    res.violate(P, "input-damaged-and-backup-incomplete", sub=label, **extra)
                    return False
        return True

    # ---- 1. body raises at every position x every class
    def sub_body(pos, exc):
        o = run_once(sc, body_raise=(pos, exc), hooks=hooks)
        res.evaluations += 1
        res.stats["fault:body-raise:" + exc] += 1
        extra = {"pos": pos, "exc": exc}
        changed_b = _changed_paths(o.before, o.after)
        if o.external is not None and o.after[0].get(inp) == o.external:
            changed_b = changed_b - {inp}        # the other program's write, not the library's
        if changed_b:
            res.violate(P, "body-raise-changed-disk", paths=sorted(changed_b), **extra)
            return
        if any(e[1] in WRITE_SIDE for e in o.disk.events):
            res.violate(P, "body-raise-write-call", **extra)
            return
        if exc == "CancelMutation":
            if o.escaped is not None:
                res.violate(P, "cancel-not-swallowed", escaped=repr(o.escaped), **extra)
                return
        else:
            if o.escaped is None:
                res.violate(P, "body-exception-swallowed", **extra)
                return
            if o.escaped is not o.raised_obj:
                res.violate(P, "body-exception-replaced", escaped=repr(o.escaped), **extra)
                return
            if o.escaped.args != o.raised_args or o.escaped.__cause__ is not None:
                res.violate(P, "body-exception-altered", args=repr(o.escaped.args),
                            cause=repr(o.escaped.__cause__), **extra)
                return
        res.note("body", shape, pos == len(sc["ops"]), exc)
        res.log("body", pos, exc, o.disk.log_digest())

    # ---- 2. unserialisable / unencodable
    def sub_spoil(spoil):
        o = run_once(sc, spoil=spoil, hooks=hooks)
        res.evaluations += 1
        label = "spoil:" + spoil["what"]
        res.stats["fault:" + spoil["what"]] += 1
        if o.escaped is None:
            if spoil["what"] == "unencodable" and gen.encodable(spoil["char"], enc):
                return
            if spoil["what"] == "unencodable" and cfg.get("errors") and \
                    _encodes_under(spoil["char"].upper() + spoil["char"], enc, cfg["errors"]):
                # the caller's error handler can write it (lossy or escaping): the save
                # legitimately succeeds
                res.stats["probe:lossy-errors-handler-saved"] += 1
                return
            res.violate(P, "unsaveable-simfile-saved-silently", spoil=spoil)
            return
        files = o.after[0]
        if files.get(inp) not in (data, o.external):
            res.violate(P, "input-damaged-by-failed-save", spoil=spoil, escaped=repr(o.escaped),
                        remaining=len(files.get(inp, b"")), original=len(data))
            return
        if not generic_after(o, label, {"spoil": spoil}):
            return
        res.note("spoil", shape, spoil["what"], spoil.get("where"))
        res.log("spoil", spoil["what"], o.disk.log_digest())

    # ---- 3. a fault at the k-th storage call
    def sub_fault(fault):
        k = fault["k"]
        if k > K:
            return
        call_kind = trace[k - 1][1]
        call_path = trace[k - 1][2]
        if fault["kind"] == "short-write" and call_kind != WRITE:
            return
        o = run_once(sc, fault=fault, hooks=hooks)
        res.evaluations += 1
        if o.invariant is not None:
            # an invariant raised from inside the disk, possibly before the fault point
            res.violate(P, o.invariant.clause, sub="%s@%d" % (fault["kind"], k), fault=fault)
            return
        if not o.disk.fired:
            res.stats["fault-not-fired"] += 1
            return
        label = "%s@%d(%s)" % (fault["kind"], k, call_kind)
        res.stats["fault:%s:%s" % (fault["kind"], call_kind)] += 1
        extra = {"fault": fault, "call": call_kind, "call_path": call_path}
        files = o.after[0]
        load_phase = k <= base.events_at_entry
        if load_phase:
            res.stats["probe:fault-in-load-phase"] += 1
            if _changed_paths(o.before, o.after):
                res.violate(P, "load-phase-fault-changed-disk", **extra)
                return
        if fault["kind"] != "kill" and o.escaped is None and fault["kind"] == "err" \
                and call_kind not in (SEEK,):
            # an injected error that vanished: the library reported success although a
            # storage call failed.  Not claimed by the property -> only counted.
            res.stats["probe:error-swallowed"] += 1
        if fault["kind"] == "err" and call_kind == OPEN_W and files.get(inp) not in (data, o.external):
            # "a file cannot be opened for writing": the input still holds its original bytes
            res.violate(P, "input-damaged-although-open-for-writing-failed", **extra)
            return
        if not generic_after(o, label, extra):
            return
        if bak_path and call_path == out_path and not load_phase:
            res.stats["probe:fault-after-backup-complete"] += 1
        if bak_path and call_path == bak_path:
            # (A fault on a call that names the backup does not by itself mean the backup is
            # unfinished - a tolerated failure of a stat() made to copy permissions, say.  What
            # the property demands is judged by generic_after and by the invariant at the moment
            # the output is opened: input changed => the backup is complete.)
            res.stats["probe:fault-while-writing-backup"] += 1
        res.note("fault", shape, fault["kind"], fault.get("errno"), k)
        res.log("fault", label, o.disk.log_digest(), repr(type(o.escaped)))

    # ---- 4. fault sequences: a second fault in the calls right after the first
    # (the clean-up path: the close that follows a failed write, the next open)
    def sub_faults(fl):
        k1 = fl[0]["k"]
        if k1 > K:
            return
        o = run_once(sc, faults=fl, hooks=hooks)
        res.evaluations += 1
        label = "+".join("%s@%d" % (f["kind"], f["k"]) for f in fl)
        if o.invariant is not None:
            res.violate(P, o.invariant.clause, sub=label, faults=fl)
            return
        if len(o.disk.fired) < 2:
            res.stats["fault-sequence-second-not-reached"] += 1
            return
        res.stats["fault:sequence:%s" % "+".join(f["kind"] for f in fl)] += 1
        extra = {"faults": fl}
        if k1 <= base.events_at_entry and _changed_paths(o.before, o.after):
            res.violate(P, "load-phase-fault-changed-disk", **extra)
            return
        if not generic_after(o, label, extra):
            return
        res.note("faults", shape, label)
        res.log("faults", label, o.disk.log_digest(), repr(type(o.escaped)))

    if only is not None:
        kind_ = only["sub"]
        if kind_ == "faults":
            sub_faults(only["faults"])
            return
        if kind_ == "fault-free":
            hb = run_once(sc, hooks=hooks)
            res.evaluations += 1
            if hb.invariant is not None:
                res.violate(P, hb.invariant.clause, sub="fault-free")
        elif kind_ == "body":
            sub_body(only["pos"], only["exc"])
        elif kind_ == "spoil":
            sub_spoil(only["spoil"])
        elif kind_ == "fault":
            sub_fault(only["fault"])
        return
    mark = len(res.violations)

    def tag(onlyspec):
        for v in res.violations[mark_box[0]:]:
            v.detail["only"] = onlyspec
        mark_box[0] = len(res.violations)

    mark_box = [mark]
    for pos in range(len(sc["ops"]) + 1):
        for exc in EXC_NAMES:
            sub_body(pos, exc)
            tag({"sub": "body", "pos": pos, "exc": exc})
    spoils = [{"what": "int-value"}, {"what": "bytes-value"}]
    if kind == "ssc":
        spoils.append({"what": "chart-without-notes"})
    for where in ("early", "late", "key", "extradata", "chart-field", "chart-notes"):
        spoils.append({"what": "unencodable", "char": _unencodable_char(enc), "where": where})
    comp = _composable_unencodable(enc)
    if comp:
        for where in ("late", "chart-field"):
            spoils.append({"what": "unencodable", "char": comp, "where": where})
    for sp in spoils:
        sub_spoil(sp)
        tag({"sub": "spoil", "spoil": sp})
    if not (base_ok and entry_ok):
        res.stats["base-save-not-clean"] += 1
        return
    for k in range(1, K + 1):
        faults = [{"kind": "err", "k": k, "errno": e} for e in ERRNO_NAMES]
        faults.append({"kind": "kill", "k": k})
        if trace[k - 1][1] == WRITE:
            faults.append({"kind": "short-write", "k": k, "frac": k * 7 + 3, "errno": "ENOSPC"})
        for f in faults:
            sub_fault(f)
            tag({"sub": "fault", "fault": f})
    # sampled pairs of faults anywhere in the trace (derived from the scenario, not from a PRNG
    # of their own: the pair list is a pure function of the trace)
    import random as _random
    prng = _random.Random(tshape * 1000003 + K)
    for _ in range(8 if K >= 4 else 0):
        k1 = prng.randint(1, K - 1)
        k2 = prng.randint(k1 + 1, K)
        fl = [{"kind": "err", "k": k1, "errno": prng.choice(ERRNO_NAMES)},
              {"kind": prng.choice(["err", "kill", "short-write"]), "k": k2, "errno": "EIO", "frac": k2}]
        sub_faults(fl)
        tag({"sub": "faults", "faults": fl})
    # sequences: err@k followed by err / kill at one of the next two calls, for every k of the
    # save phase (plus the last calls of the load phase)
    for k in range(max(1, base.events_at_entry - 1), K + 1):
        for d in (1, 2):
            for second in ("err", "kill"):
                fl = [{"kind": "err", "k": k, "errno": "EIO"},
                      {"kind": second, "k": k + d, "errno": "ENOSPC"}]
                sub_faults(fl)
                tag({"sub": "faults", "faults": fl})


def execute(sc):
    res = RunResult()
    if sc["property"] == "C05":
        check_c05(sc, res)
    elif sc["property"] == "C06":
        check_c06(sc, res)
    else:
        raise HarnessError("mutate workload serves C05/C06, not %r" % (sc["property"],))
    return res


def narrow(sc, violation):
    """Turn an enumerating C06 scenario into the single failing sub-run."""
    only = violation.detail.get("only")
    if sc["property"] == "C06" and only and "only" not in sc:
        sc = dict(sc)
        sc["only"] = only
    return sc
