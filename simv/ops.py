"""Edit-script operations: one vocabulary, applied to the real object and to
the reference model.  Every operation returns an *outcome* — ``["ok", value]``
or ``["exc", "<ExceptionClassName>"]`` — and the two outcomes must agree.

Values travel as JSON: ``str``, ``None`` or, for the unserialisable fault,
``{"int": n}`` / ``{"bytes": "hex"}``.
"""
from . import models
from .models import RefSMChart, RefSSCChart, RefSimfile, ATTRS, SM_FIELDS


class Strings:
    """Owner of string object identity for one run.

    Without a share tag every use of a value gets a *fresh* object where CPython
    allows it (so that equal values are different objects); with a share tag the
    same object is handed out again (so that different properties hold the very
    same object).  Empty and one-character latin-1 strings are singletons in
    CPython whatever we do — those are exactly the interned cases the SSC
    property names."""

    def __init__(self):
        self.shared = {}

    def make(self, value, share=None):
        if isinstance(value, dict):
            if "int" in value:
                return value["int"]
            if "bytes" in value:
                return bytes.fromhex(value["bytes"])
            raise ValueError(value)
        if value is None:
            return None
        if share is not None:
            key = (share, value)
            if key not in self.shared:
                self.shared[key] = (value + "x")[:-1]
            return self.shared[key]
        return (value + "x")[:-1]


def model_value(value):
    """What the model stores for a JSON value."""
    if isinstance(value, dict):
        if "int" in value:
            return value["int"]
        return bytes.fromhex(value["bytes"])
    return value


def outcome_of(fn):
    try:
        return ["ok", fn()]
    except KeyError:
        return ["exc", "KeyError"]
    except NotImplementedError:
        return ["exc", "NotImplementedError"]
    except IndexError:
        return ["exc", "IndexError"]
    except AttributeError:
        return ["exc", "AttributeError"]
    except TypeError:
        return ["exc", "TypeError"]
    except ValueError:
        return ["exc", "ValueError"]


# ------------------------------------------------------------ chart building
def build_chart(spec, fmt, strings, lib):
    """Build (real chart, model chart) from a chart spec."""
    src = spec["from"]
    if fmt == "sm":
        if src == "blank":
            real = lib.SMChart.blank()
            model = models.chart_from_plain(real_plain(real, lib))
        elif src == "fields":
            vals = [strings.make(v) for v in spec["fields"]] + \
                   [strings.make(v) for v in (spec.get("extra") or [])]
            real = lib.SMChart.from_msd(vals)
            model = RefSMChart([v.strip() for v in spec["fields"]], spec.get("extra"))
        elif src == "ctor":
            # an empty SMChart() filled in field by field, in any order, through
            # attributes or keys (insertion order of the mapping = the order used)
            real = lib.SMChart()
            model = RefSMChart.from_items([])
            via = spec.get("via", "attr")
            for j in spec["order"]:
                k = SM_FIELDS[j % 6]
                v = spec["fields"][j % 6]
                if via == "attr":
                    setattr(real, k.lower(), strings.make(v))
                else:
                    real[k] = strings.make(v)
                model.set(k, v)
            if spec.get("extra"):
                real.extradata = [strings.make(x) for x in spec["extra"]]
                model.extra = list(spec["extra"])
        else:
            raise ValueError(src)
        return real, model
    if src == "blank":
        real = lib.SSCChart.blank()
        model = models.chart_from_plain(real_plain(real, lib))
    elif src == "items":
        real = lib.SSCChart()
        model = RefSSCChart()
        for it in spec["items"]:
            k, v = it[0], it[1]
            k = (k + "x")[:-1]          # run-time built key object (never the interned literal)
            share = it[2] if len(it) > 2 else None
            real[k] = strings.make(v, share)
            model.set(k, model_value(v))
    else:
        raise ValueError(src)
    return real, model


# ------------------------------------------------------------- op application
def _target(real_sf, model_sf, op):
    """Resolve the object an op acts on: the simfile or chart i.  Returns
    (real, model) or (None, None) when the chart index no longer exists."""
    if "i" not in op or op["i"] is None:
        return real_sf, model_sf
    i = op["i"]
    if not (0 <= i < len(model_sf.charts)):
        return None, None
    return real_sf.charts[i], model_sf.charts[i]


def apply_op(real_sf, model_sf, op, strings, lib, fmt):
    """Apply one op to both.  Returns (real outcome, model outcome) or None if
    the op was skipped as ill-formed (after shrinking)."""
    name = op["op"]
    # ---- chart-list operations (simfile level)
    if name in ("charts_append", "charts_insert", "charts_replace") and \
            op["chart"].get("from") == "copyof":
        # a copy of a chart that is already there (copy / deepcopy / pickle round trip):
        # whatever the library keeps on the instance travels with it
        import copy as _copy
        import pickle as _pickle
        j = op["chart"].get("i", 0)
        if not (0 <= j < len(model_sf.charts)):
            op = dict(op, chart={"from": "blank"})
        else:
            how = op["chart"].get("how", "deepcopy")
            src = real_sf.charts[j]
            if how == "same":
                rc = src                       # one chart object at two positions of the list
            elif how == "copy" and not isinstance(model_sf.charts[j], RefSMChart):
                rc = _copy.copy(src)
            elif how == "pickle":
                rc = _pickle.loads(_pickle.dumps(src))
            else:
                rc = _copy.deepcopy(src)
            mc = model_sf.charts[j] if how == "same" else _copy.deepcopy(model_sf.charts[j])
            if name == "charts_append":
                real_sf.charts.append(rc)
                model_sf.charts.append(mc)
            elif name == "charts_insert":
                real_sf.charts.insert(op["pos"], rc)
                model_sf.charts.insert(op["pos"], mc)
            else:
                i = op["i"]
                if not (0 <= i < len(model_sf.charts)):
                    return None
                real_sf.charts[i] = rc
                model_sf.charts[i] = mc
            return ["ok", None], ["ok", None]
    if name == "charts_append":
        rc, mc = build_chart(op["chart"], fmt, strings, lib)
        real_sf.charts.append(rc)
        model_sf.charts.append(mc)
        return ["ok", None], ["ok", None]
    if name == "charts_insert":
        rc, mc = build_chart(op["chart"], fmt, strings, lib)
        pos = op["pos"]
        real_sf.charts.insert(pos, rc)
        model_sf.charts.insert(pos, mc)
        return ["ok", None], ["ok", None]
    if name == "charts_remove":
        i = op["i"]
        if not (0 <= i < len(model_sf.charts)):
            return None
        del real_sf.charts[i]
        del model_sf.charts[i]
        return ["ok", None], ["ok", None]
    if name == "charts_swap":
        i, j = op["i"], op["j"]
        n = len(model_sf.charts)
        if not (0 <= i < n and 0 <= j < n):
            return None
        real_sf.charts[i], real_sf.charts[j] = real_sf.charts[j], real_sf.charts[i]
        model_sf.charts[i], model_sf.charts[j] = model_sf.charts[j], model_sf.charts[i]
        return ["ok", None], ["ok", None]
    if name == "charts_reverse":
        real_sf.charts.reverse()
        model_sf.charts.reverse()
        return ["ok", None], ["ok", None]
    if name == "charts_replace":
        i = op["i"]
        if not (0 <= i < len(model_sf.charts)):
            return None
        rc, mc = build_chart(op["chart"], fmt, strings, lib)
        real_sf.charts[i] = rc
        model_sf.charts[i] = mc
        return ["ok", None], ["ok", None]
    if name == "charts_assign":
        order = [i for i in op["order"] if 0 <= i < len(model_sf.charts)]
        # several positions may name the same chart index only once (a list of
        # distinct chart objects), keep first occurrences
        seen = []
        for i in order:
            if i not in seen:
                seen.append(i)
        new_real = [real_sf.charts[i] for i in seen]
        new_model = [model_sf.charts[i] for i in seen]
        if op.get("as") == "tuple":
            real_sf.charts = tuple(new_real)
        else:
            real_sf.charts = new_real
        model_sf.charts = new_model
        return ["ok", None], ["ok", None]

    real, model = _target(real_sf, model_sf, op)
    if real is None:
        return None
    is_smchart = isinstance(model, RefSMChart)

    if name == "extra_inplace":
        # edit the list of extra components in place (not rebinding the attribute)
        if not is_smchart:
            return None
        how = op.get("how", "append")
        v = strings.make(op["value"])
        if real.extradata is None:
            real.extradata = []
        if model.extra is None:
            model.extra = []
        pos = op.get("pos", 0)
        if how == "append":
            real.extradata.append(v)
            model.extra.append(op["value"])
        elif how == "insert":
            real.extradata.insert(pos, v)
            model.extra.insert(pos, op["value"])
        elif how == "setitem" and pos < len(model.extra):
            real.extradata[pos] = v
            model.extra[pos] = op["value"]
        elif how == "del" and pos < len(model.extra):
            del real.extradata[pos]
            del model.extra[pos]
        if not model.extra:
            model.extra = None
        return ["ok", None], ["ok", None]
    if name in ("set_key", "get_key", "del_key", "contains", "move", "dict_pop", "dict_setdefault",
                "rename_key") and isinstance(op.get("key"), str):
        # a key object built at run time: equal to, but not the same object as, any literal
        op = dict(op, key=(op["key"] + "x")[:-1])
    if name == "set_key":
        k = op["key"]
        v = strings.make(op["value"], op.get("share"))

        def rf():
            real[k] = v

        def mf():
            if is_smchart and k not in SM_FIELDS:
                raise KeyError(k)
            model.set(k, model_value(op["value"]))
        return outcome_of(rf), outcome_of(mf)
    if name == "get_key":
        k = op["key"]

        def mf():
            if is_smchart and k not in SM_FIELDS:
                raise KeyError(k)
            return model.get(k)
        return outcome_of(lambda: real[k]), outcome_of(mf)
    if name == "del_key":
        k = op["key"]

        def rf():
            del real[k]

        def mf():
            if is_smchart:
                raise NotImplementedError
            model.delete(k)
        return outcome_of(rf), outcome_of(mf)
    if name == "contains":
        k = op["key"]
        return outcome_of(lambda: k in real), outcome_of(lambda: model.has(k))
    if name == "iter":
        return outcome_of(lambda: [[k, v] for k, v in real.items()]), \
            outcome_of(lambda: [list(i) for i in model.items])
    if name == "keys":
        return outcome_of(lambda: list(real)), outcome_of(lambda: model.keys())
    if name == "move":
        k = op["key"]
        last = bool(op.get("last", True))
        if is_smchart:
            return None
        return outcome_of(lambda: real.move_to_end(k, last)), \
            outcome_of(lambda: model.move_to_end(k, last))
    # ---- inherited OrderedDict mutators that do not go through __setitem__/__delitem__
    if name == "dict_pop":
        if is_smchart:
            return None
        k = op["key"]

        def mf():
            v = model.get(k)
            model.delete(k)
            return v
        return outcome_of(lambda: real.pop(k)), outcome_of(mf)
    if name == "rename_key":
        # obj[new] = obj.pop(old): the very same value object now lives under another key
        if is_smchart:
            return None
        k, new = op["key"], (op["new"] + "x")[:-1]

        def rf():
            real[new] = real.pop(k)

        def mf():
            v = model.get(k)
            model.delete(k)
            model.set(new, v)
        return outcome_of(rf), outcome_of(mf)
    if name == "dict_popitem":
        if is_smchart:
            return None
        last = bool(op.get("last", True))

        def mf():
            if not model.items:
                raise KeyError("empty")
            it = model.items.pop(-1 if last else 0)
            return [it[0], it[1]]
        return outcome_of(lambda: list(real.popitem(last))), outcome_of(mf)
    if name == "dict_setdefault":
        if is_smchart:
            return None
        k = op["key"]
        v = strings.make(op["value"], op.get("share"))

        def mf():
            if not model.has(k):
                model.set(k, model_value(op["value"]))
            return model.get(k)
        return outcome_of(lambda: real.setdefault(k, v)), outcome_of(mf)
    if name == "set_attr":
        a = op["attr"]
        if a not in ATTRS[model.kind]:
            return None
        v = strings.make(op["value"], op.get("share"))

        def rf():
            setattr(real, a, v)

        def mf():
            model.set(model.attr_key(a), model_value(op["value"]))
        return outcome_of(rf), outcome_of(mf)
    if name == "get_attr":
        a = op["attr"]
        if a not in ATTRS[model.kind]:
            return None
        return outcome_of(lambda: getattr(real, a)), outcome_of(lambda: model.attr_get(a))
    if name == "del_attr":
        a = op["attr"]
        if a not in ATTRS[model.kind]:
            return None

        def rf():
            delattr(real, a)

        def mf():
            if is_smchart:
                raise NotImplementedError
            model.delete(model.attr_key(a))
        return outcome_of(rf), outcome_of(mf)
    # ---- SM chart: refused operations and extra components
    if name == "update":
        if not is_smchart:
            return None
        k = op["key"]
        v = strings.make(op["value"])

        def mf():
            raise NotImplementedError
        return outcome_of(lambda: real.update({k: v})), outcome_of(mf)
    if name == "pop":
        if not is_smchart:
            return None
        k = op["key"]

        def mf():
            raise NotImplementedError
        return outcome_of(lambda: real.pop(k)), outcome_of(mf)
    if name == "popitem":
        if not is_smchart:
            return None

        def mf():
            raise NotImplementedError
        return outcome_of(lambda: real.popitem()), outcome_of(mf)
    if name == "set_extra":
        if not is_smchart:
            return None
        ex = op["extra"]
        real.extradata = None if ex is None else [strings.make(x) for x in ex]
        model.extra = list(ex) if ex else None
        return ["ok", None], ["ok", None]
    raise ValueError("unknown op %r" % (name,))


# ------------------------------------------------------------ real -> plain
def real_plain(obj, lib):
    """Read the real object's complete state through the mapping protocol of
    the underlying OrderedDict (bypassing the overridden SMChart accessors)."""
    from collections import OrderedDict
    if isinstance(obj, lib.SMChart):
        return {"t": "smchart",
                "items": [[k, OrderedDict.__getitem__(obj, k)] for k in OrderedDict.keys(obj)],
                "extra": list(obj.extradata) if obj.extradata else None}
    if isinstance(obj, lib.SSCChart):
        return {"t": "sscchart", "items": [[k, v] for k, v in OrderedDict.items(obj)]}
    kind = "ssc" if isinstance(obj, lib.SSCSimfile) else "sm"
    return {"t": kind, "items": [[k, v] for k, v in OrderedDict.items(obj)],
            "charts": [real_plain(c, lib) for c in obj.charts]}


def build_real(model, lib, strings=None):
    """Rebuild a real object from a model (used for the equality clauses)."""
    strings = strings or Strings()
    if isinstance(model, RefSMChart):
        c = lib.SMChart.from_msd([""] * 6)
        for k, v in model.items:
            c[k] = strings.make(v)
        c.extradata = [strings.make(x) for x in model.extra] if model.extra else None
        return c
    if isinstance(model, RefSSCChart):
        c = lib.SSCChart()
        for k, v in model.items:
            c[k] = strings.make(v)
        return c
    sf = lib.SMSimfile(string="") if model.kind == "sm" else lib.SSCSimfile(string="")
    for k, v in model.items:
        sf[k] = strings.make(v)
    for c in model.charts:
        sf.charts.append(build_real(c, lib, strings))
    return sf


class Lib:
    """The library under test, imported lazily from /repo."""

    def __init__(self):
        import simfile
        from simfile.sm import SMChart, SMSimfile, SMCharts
        from simfile.ssc import SSCChart, SSCSimfile, SSCCharts
        self.simfile = simfile
        self.SMChart, self.SMSimfile, self.SMCharts = SMChart, SMSimfile, SMCharts
        self.SSCChart, self.SSCSimfile, self.SSCCharts = SSCChart, SSCSimfile, SSCCharts


_LIB = None


def lib():
    global _LIB
    if _LIB is None:
        _LIB = Lib()
    return _LIB
