#!/bin/sh
# tools/seedproc.sh <worktree-suffix e.g. wt6-C02-b>: collect, confirm, detect (scratch copy), remove the worktree
w=$1
python3 tools/seeded.py collect "/$w/" | tee /tmp/seedproc.$$ 
names=$(sed -n 's#^collected /verif/seeded/##p' /tmp/seedproc.$$); rm -f /tmp/seedproc.$$
for n in $names; do
  python3 tools/seeded.py confirm "$n" | cut -c1-200
  python3 tools/seeded.py detect --scratch "$n"
done
if [ -n "$names" ]; then git -C /repo worktree remove --force /tmp/$w; else echo "nothing collected from $w (name clash?) - worktree kept"; fi
