"""Print the measured-numbers table of DESIGN.md section 10.9 from evidence/*.json."""
import json
import os
import sys

VERIF = os.path.dirname(os.path.dirname(os.path.abspath(__file__)))
print("| property | tier | simulated runs | evaluations | distinct non-trivial | runs/hour (16 procs) | faults / buggify fired | wall s |")
print("|---|---|---|---|---|---|---|---|")
for p in ["C01", "C02", "C03", "C04", "C05", "C06", "C18", "C19", "C20"]:
    e = json.load(open(os.path.join(VERIF, "evidence", p + ".json")))
    c = e["coverage"]
    faults = sum(c.get("fault_kinds_fired", {}).values())
    bugg = sum(c.get("buggify_sites_fired", {}).values())
    print("| %s | %s | %d | %d | %d | %.1f M | %d / %d | %.1f |" % (
        p, e["tier"], c["simulated_runs"], c["evaluations"], c["distinct_nontrivial"],
        c["runs_per_hour"] / 1e6, faults, bugg, e["wall_s"]))
