#!/bin/sh
# tools/soak.sh <tier> <seed>...   run every claimed check for several VERIF_SEED values (in a vp run snapshot)
tier=$1; shift
rc=0
for seed in "$@"; do
  for p in C01 C02 C03 C04 C05 C06 C18 C19 C20; do
    out=$(VERIF_SEED=$seed ./simcheck check $p --tier $tier 2>&1); r=$?
    echo "seed=$seed $p rc=$r $(echo "$out" | grep -v KNOWN-FINDING | tail -1)"
    if [ $r -ne 0 ]; then rc=1; echo "$out" | grep -v KNOWN-FINDING | tail -8; fi
  done
done
exit $rc
