"""Behaviour-preserving refactorings written by independent sub-agents: every check must
stay silent on them (false-alarm test).

  tools/benign.py collect          copy /tmp/wtb-*/benign/*/{patch.diff,meta.json} into /verif/benign/<name>/
  tools/benign.py run [name...]    apply each to a scratch copy of /repo, run the repo's tests and all nine
                                   quick checks against it (SIMFILE_REPO), record the outcome in meta.json
"""
import glob
import json
import os
import shutil
import subprocess
import sys

VERIF = os.path.dirname(os.path.dirname(os.path.abspath(__file__)))
BENIGN = os.path.join(VERIF, "benign")
PROPS = ["C01", "C02", "C03", "C04", "C05", "C06", "C18", "C19", "C20"]


def run(cmd, **kw):
    return subprocess.run(cmd, capture_output=True, text=True, **kw)


def collect():
    os.makedirs(BENIGN, exist_ok=True)
    for d in sorted(glob.glob("/tmp/wtb*-*/benign/*")):
        if not os.path.exists(os.path.join(d, "patch.diff")):
            continue
        dst = os.path.join(BENIGN, os.path.basename(d))
        if os.path.exists(dst):
            continue
        os.makedirs(dst)
        for f in ("patch.diff", "meta.json"):
            if os.path.exists(os.path.join(d, f)):
                shutil.copy(os.path.join(d, f), dst)
        print("collected", dst)


def main(sel, runs):
    for name in sorted(os.listdir(BENIGN)):
        d = os.path.join(BENIGN, name)
        if not os.path.isdir(d) or (sel and not any(s in name for s in sel)):
            continue
        scratch = os.path.expanduser("~/scratch/benign-%s-%d" % (name, os.getpid()))
        shutil.rmtree(scratch, ignore_errors=True)
        run(["rsync", "-a", "--exclude", ".git", "--exclude", "__pycache__", "/repo/", scratch + "/"])
        a = run(["patch", "-p1", "-i", os.path.join(d, "patch.diff")], cwd=scratch)
        t = run(["/venv/bin/python", "-m", "pytest", "-q", "-p", "no:cacheprovider", "--deselect",
                 "simfile/tests/test_assets.py::TestAssets::test_predefined_assets"],
                cwd=scratch, env=dict(os.environ, PYTHONPATH=scratch))
        verdict = {}
        for prop in PROPS:
            cmd = [os.path.join(VERIF, "simcheck"), "check", prop, "--tier", "quick"]
            if runs:
                cmd += ["--runs", str(runs)]
            c = run(cmd, cwd=VERIF, env=dict(os.environ, SIMFILE_REPO=scratch))
            clause = [l.strip() for l in c.stdout.splitlines() if l.strip().startswith("clause:")]
            verdict[prop] = "silent" if c.returncode == 0 else \
                "ALARM rc=%d %s" % (c.returncode, (clause[:1] or [c.stdout[-300:]])[0][:160])
        shutil.rmtree(scratch, ignore_errors=True)
        meta_p = os.path.join(d, "meta.json")
        meta = json.load(open(meta_p)) if os.path.exists(meta_p) else {}
        meta["checks"] = {"patch_applies": a.returncode == 0, "suite_passes": t.returncode == 0,
                          "runs_per_check": runs or "quick tier", "verdicts": verdict}
        json.dump(meta, open(meta_p, "w"), indent=1)
        alarms = {k: v for k, v in verdict.items() if v != "silent"}
        print("%-40s patch=%s tests=%s %s" % (name, a.returncode == 0, t.returncode == 0,
                                               "ALL SILENT" if not alarms else alarms))
        sys.stdout.flush()


if __name__ == "__main__":
    if sys.argv[1] == "collect":
        collect()
    else:
        runs = None
        args = sys.argv[2:]
        if args and args[0].startswith("--runs="):
            runs = int(args[0][7:])
            args = args[1:]
        main(args, runs)
