"""Seeded changes written by independent sub-agents (they saw only the property
text and a scratch worktree, nothing from /verif).

  tools/seeded.py collect            copy /tmp/wt-*/seeded/* into /verif/seeded/<prop>-<name>/
  tools/seeded.py confirm [id...]    in a scratch worktree: demo passes without the patch, suite passes
                                     and demo fails with it
  tools/seeded.py detect [id...]     git -C /repo apply <patch>; run the property's quick check; undo
"""
import glob
import json
import os
import shutil
import subprocess
import sys

VERIF = os.path.dirname(os.path.dirname(os.path.abspath(__file__)))
SEEDED = os.path.join(VERIF, "seeded")
PY = "/venv/bin/python"


def run(cmd, **kw):
    return subprocess.run(cmd, capture_output=True, text=True, **kw)


def ids(sel):
    out = sorted(d for d in os.listdir(SEEDED) if os.path.isdir(os.path.join(SEEDED, d)))
    return [d for d in out if not sel or any(s in d for s in sel)]


def collect(sel=()):
    os.makedirs(SEEDED, exist_ok=True)
    for d in sorted(glob.glob("/tmp/wt[0-9]*-*/seeded/*")):
        if sel and not any(x in d for x in sel):
            continue
        if not all(os.path.exists(os.path.join(d, f)) for f in ("patch.diff", "demo.py", "meta.json")):
            continue
        prop = d.split("/")[2].split("-")[1]
        name = os.path.basename(d)
        dst = os.path.join(SEEDED, name if name.startswith(prop + "-") else "%s-%s" % (prop, name))
        if os.path.exists(dst):
            continue
        shutil.copytree(d, dst)
        print("collected", dst)


def confirm(sel):
    for sid in ids(sel):
        d = os.path.join(SEEDED, sid)
        wt = "/tmp/sw-" + sid
        run(["git", "-C", "/repo", "worktree", "remove", "--force", wt])
        r = run(["git", "-C", "/repo", "worktree", "add", "--detach", wt, "HEAD"])
        assert r.returncode == 0, r.stderr
        env = dict(os.environ, PYTHONPATH=wt)
        try:
            clean = run([PY, os.path.join(d, "demo.py")], cwd=wt, env=env)
            a = run(["git", "apply", os.path.join(d, "patch.diff")], cwd=wt)
            tests = run([PY, "-m", "pytest", "-q", "-p", "no:cacheprovider", "--deselect",
                         "simfile/tests/test_assets.py::TestAssets::test_predefined_assets"],
                        cwd=wt, env=env)
            dirty = run([PY, os.path.join(d, "demo.py")], cwd=wt, env=env)
            res = {"demo_without_patch_exit": clean.returncode, "patch_applies": a.returncode == 0,
                   "suite_with_patch_exit": tests.returncode,
                   "suite_with_patch_tail": tests.stdout.strip().splitlines()[-1:],
                   "demo_with_patch_exit": dirty.returncode}
            ok = clean.returncode == 0 and a.returncode == 0 and tests.returncode == 0 \
                and dirty.returncode != 0
            res["confirmed"] = ok
            meta = json.load(open(os.path.join(d, "meta.json")))
            meta["confirmation"] = res
            meta["ran"] = ["demo.py on clean worktree", "git apply patch.diff",
                           "pytest (flaky test_predefined_assets deselected)", "demo.py with patch"]
            json.dump(meta, open(os.path.join(d, "meta.json"), "w"), indent=1)
            print("%-45s %s %s" % (sid, "CONFIRMED" if ok else "NOT-CONFIRMED", res))
        finally:
            run(["git", "-C", "/repo", "worktree", "remove", "--force", wt])
            shutil.rmtree(wt, ignore_errors=True)


def detect(sel, tier="quick", scratch=False):
    """scratch=False: apply to /repo itself, run the check, undo (the documented way).
    scratch=True: apply to a scratch copy of /repo and point the check at it with
    SIMFILE_REPO - same check, same code, and /repo is never touched (safe while
    background soaks read /repo)."""
    if not scratch:
        assert run(["git", "-C", "/repo", "status", "--porcelain", "--untracked-files=no"]).stdout.strip() == "", \
            "/repo has local modifications"
    for sid in ids(sel):
        d = os.path.join(SEEDED, sid)
        meta = json.load(open(os.path.join(d, "meta.json")))
        prop = meta["property"]
        if scratch:
            wt = os.path.expanduser("~/scratch/seeded-%s-%d" % (sid, os.getpid()))
            shutil.rmtree(wt, ignore_errors=True)
            os.makedirs(os.path.dirname(wt), exist_ok=True)
            run(["rsync", "-a", "--exclude", ".git", "--exclude", "__pycache__", "/repo/", wt + "/"])
            a = run(["patch", "-p1", "-i", os.path.join(d, "patch.diff")], cwd=wt)
            try:
                assert a.returncode == 0, a.stdout + a.stderr
                c = run([os.path.join(VERIF, "simcheck"), "check", prop, "--tier", tier], cwd=VERIF,
                        env=dict(os.environ, SIMFILE_REPO=wt))
            finally:
                shutil.rmtree(wt, ignore_errors=True)
        else:
            a = run(["git", "-C", "/repo", "apply", os.path.join(d, "patch.diff")])
            try:
                assert a.returncode == 0, a.stderr
                c = run([os.path.join(VERIF, "simcheck"), "check", prop, "--tier", tier], cwd=VERIF)
            finally:
                run(["git", "-C", "/repo", "checkout", "--", "."])
        caught = c.returncode == 1 and ("VIOLATION property=%s" % prop) in c.stdout
        clause = [l.strip() for l in c.stdout.splitlines() if l.strip().startswith("clause:")]
        meta["detection"] = {"check": "./simcheck check %s --tier %s" % (prop, tier),
                             "exit": c.returncode, "caught": caught, "clauses": clause[:3]}
        json.dump(meta, open(os.path.join(d, "meta.json"), "w"), indent=1)
        print("%-45s %s rc=%d %s" % (sid, "CAUGHT" if caught else "MISSED", c.returncode,
                                     clause[:1] if caught else c.stdout[-300:] if c.returncode == 2 else ""))
        sys.stdout.flush()


if __name__ == "__main__":
    cmd = sys.argv[1]
    if cmd == "collect":
        collect(sys.argv[2:])
    elif cmd == "confirm":
        confirm(sys.argv[2:])
    elif cmd == "detect":
        args = sys.argv[2:]
        scratch = "--scratch" in args
        detect([a for a in args if a != "--scratch"], scratch=scratch)


def table():
    rows = []
    for sid in ids([]):
        m = json.load(open(os.path.join(SEEDED, sid, "meta.json")))
        det = m.get("detection", {})
        cl = (det.get("clauses") or ["?"])[0].replace("clause: ", "").split(" (")[0]
        needs = " ".join(str(m.get("needs", "")).split())
        if len(needs) > 230:
            needs = needs[:227] + "..."
        rows.append("| `%s` | %s | %s `%s` |" % (sid, needs.replace("|", "\\|"),
                                               "caught:" if det.get("caught") else "MISSED", cl))
    print("\n".join(rows))


if __name__ == "__main__" and sys.argv[1] == "table":
    table()
