"""Sensitivity self-test: realistic single-site mutants of garcia/simfile.

Each mutant is applied to a scratch copy of /repo (under $HOME/scratch, removed
afterwards), must still pass the repository's own test suite, and must make the
quick tier of the targeted property's check exit 1 with a VIOLATION line.

usage: tools/mutants.py [name-substring ...]      (run from /verif)
"""
import json
import os
import shutil
import subprocess
import sys

VERIF = os.path.dirname(os.path.dirname(os.path.abspath(__file__)))
SCRATCH = os.path.expanduser("~/scratch/mutant-repo-%d" % os.getpid())

M = []


def mutant(name, props, file, old, new, count=1, more=()):
    M.append({"name": name, "props": props, "file": file, "old": old, "new": new, "count": count,
              "more": list(more)})


I = "simfile/__init__.py"
# ------------------------------------------------------------------ C05
mutant("c05-backup-captured-after-yield", ["C05"], I,
       '    backup_data = str(simfile) if backup_filename else ""\n\n    try:\n        yield simfile\n',
       '    try:\n        yield simfile\n        backup_data = str(simfile) if backup_filename else ""\n')
mutant("c05-output-opened-without-encoding", ["C05"], I,
       '            output_filename or input_filename, "w", encoding=encoding, **kwargs\n',
       '            output_filename or input_filename, "w", **kwargs\n')
mutant("c05-encodings-reordered", ["C05"], I,
       'ENCODINGS = ["utf-8", "cp1252", "cp932", "cp949"]', 'ENCODINGS = ["utf-8", "cp932", "cp1252", "cp949"]')
mutant("c05-output-written-to-input", ["C05"], I,
       '            output_filename or input_filename, "w", encoding=encoding, **kwargs\n',
       '            input_filename, "w", encoding=encoding, **kwargs\n')
mutant("c05-try-encodings-not-forwarded", ["C05"], I,
       '        input_filename,\n        try_encodings=try_encodings,\n        strict=strict,',
       '        input_filename,\n        strict=strict,')
mutant("c05-backup-compared-with-input-only", ["C05"], I,
       'if backup_filename in (input_filename, output_filename):', 'if backup_filename == input_filename:')
mutant("c05-explicit-encoding-appended-not-single", ["C05"], I,
       '        try_encodings = [kwargs.pop("encoding")]', '        try_encodings = [kwargs.pop("encoding")] + ENCODINGS')
mutant("c05-backup-in-utf8", ["C05"], I,
       '                backup_filename, "w", encoding=encoding, **kwargs', '                backup_filename, "w", encoding="utf-8", **kwargs')
# ------------------------------------------------------------------ C06
mutant("c06-exception-swallowed", ["C06"], I, '    except:\n        raise\n', '    except Exception:\n        return\n')
mutant("c06-cancel-writes-output", ["C06"], I,
       "    except CancelMutation:\n        return  # Don't re-raise\n    except:\n        raise\n    else:\n",
       "    except CancelMutation:\n        pass\n    except:\n        raise\n    if True:\n")
mutant("c06-revert-serialise-first", ["C06"], I,
       '''        output_data = str(simfile)
        errors = kwargs.get("errors") or "strict"
        output_data.encode(encoding, errors)
        backup_data.encode(encoding, errors)
''', "", more=[("            writer.write(output_data)\n",
                 "            simfile.serialize(cast(TextIO, writer))\n")])
mutant("c06-output-opened-before-backup", ["C06"], I,
       '''        # Write backup file if requested
        if backup_filename:
            with filesystem.open(
                backup_filename, "w", encoding=encoding, **kwargs
            ) as writer:
                writer.write(backup_data)

        # Write output file
        with filesystem.open(
            output_filename or input_filename, "w", encoding=encoding, **kwargs
        ) as writer:
            writer.write(output_data)
''',
       '''        # Write output file
        with filesystem.open(
            output_filename or input_filename, "w", encoding=encoding, **kwargs
        ) as writer:
            writer.write(output_data)

        # Write backup file if requested
        if backup_filename:
            with filesystem.open(
                backup_filename, "w", encoding=encoding, **kwargs
            ) as writer:
                writer.write(backup_data)
''')
mutant("c06-backup-and-output-in-one-with", ["C06"], I,
       '''        if backup_filename:
            with filesystem.open(
                backup_filename, "w", encoding=encoding, **kwargs
            ) as writer:
                writer.write(backup_data)

        # Write output file
        with filesystem.open(
            output_filename or input_filename, "w", encoding=encoding, **kwargs
        ) as writer:
            writer.write(output_data)
''',
       '''        if backup_filename:
            with filesystem.open(
                backup_filename, "w", encoding=encoding, **kwargs
            ) as bwriter, filesystem.open(
                output_filename or input_filename, "w", encoding=encoding, **kwargs
            ) as writer:
                bwriter.write(backup_data)
                writer.write(output_data)
        else:
            with filesystem.open(
                output_filename or input_filename, "w", encoding=encoding, **kwargs
            ) as writer:
                writer.write(output_data)
''')
mutant("c06-baseexception-converted", ["C06"], I, '    except:\n        raise\n',
       '    except Exception:\n        raise\n    except BaseException as e:\n        raise RuntimeError("aborted") from e\n')
mutant("c06-no-encode-precheck", ["C06"], I, '        output_data.encode(encoding, errors)\n', '')
# ------------------------------------------------------------------ C03
mutant("c03-strict-not-forwarded-to-detection", ["C03"], I, '_detect_ssc(file, strict=strict)', '_detect_ssc(file)')
mutant("c03-suffix-test-case-sensitive", ["C03"], I, 'file.name.lower().rpartition(".")', 'file.name.rpartition(".")')
mutant("c03-sm-upper-dropped", ["C03"], "simfile/sm.py",
       '        for param in parser:\n            key = param.key.upper()\n            if key == "NOTES":',
       '        for param in parser:\n            key = param.key\n            if key.upper() == "NOTES":')
mutant("c03-first-duplicate-wins", ["C03"], "simfile/sm.py",
       '            else:\n                self[key] = param.value\n\n    @classmethod\n    def blank(cls: Type["SMSimfile"])',
       '            else:\n                self.setdefault(key, param.value)\n\n    @classmethod\n    def blank(cls: Type["SMSimfile"])')
mutant("c03-multi-value-join-dropped-ssc-chart", ["C03"], "simfile/ssc.py",
       '            if key in BaseSimfile.MULTI_VALUE_PROPERTIES and param.value is not None:\n                value: Optional[str] = ":".join(param.components[1:])',
       '            if key in BaseSimfile.MULTI_VALUE_PROPERTIES and param.value is not None and partial_chart is None:\n                value: Optional[str] = ":".join(param.components[1:])')
mutant("c03-strip-dropped-from-one-field", ["C03"], "simfile/sm.py",
       '            self[property] = value.strip()', '            self[property] = value.strip() if property != "DESCRIPTION" else value.rstrip()')
mutant("c03-rewind-dropped", ["C03"], I,
       '    if isinstance(file, TextIOWrapper) or isinstance(file, TextIO):\n        # Rewind', '    if isinstance(file, TextIO):\n        # Rewind')
mutant("c03-version-detection-case-sensitive", ["C03"], I, 'first_param.key.upper() == "VERSION"', 'first_param.key == "VERSION"')
mutant("c03-sscchart-upper-dropped", ["C03"], "simfile/ssc.py",
       '        for param in iterator:\n            key = param.key.upper()', '        for param in iterator:\n            key = param.key')
# ------------------------------------------------------------ C01/C02/C04
mutant("c01-displaybpm-not-split", ["C01", "C02"], "simfile/base.py",
       '    MULTI_VALUE_PROPERTIES = ("ATTACKS", "DISPLAYBPM")', '    MULTI_VALUE_PROPERTIES = ("ATTACKS",)')
mutant("c01-field-order-swapped", ["C01", "C18"], "simfile/sm.py",
       '                f"\\n     {self.difficulty}",\n                f"\\n     {self.meter}",',
       '                f"\\n     {self.meter}",\n                f"\\n     {self.difficulty}",')
mutant("c01-extradata-not-emitted", ["C01"], "simfile/sm.py", '                *(self.extradata or []),\n', '')
mutant("c01-revert-none-serialisation", ["C01", "C04"], "simfile/base.py",
       '            if value is None:\n                # Key-only parameter (no value component)\n                param = MSDParameter((key,))\n            elif key in',
       '            if key in')
mutant("c01-keyonly-multi-loaded-as-empty", ["C01"], "simfile/sm.py",
       'elif key in BaseSimfile.MULTI_VALUE_PROPERTIES and param.value is not None:', 'elif key in BaseSimfile.MULTI_VALUE_PROPERTIES:')
mutant("c02-notes-not-moved-last", ["C02"], "simfile/ssc.py",
       '            if key == notes_key:\n                continue\n', '            if key == notes_key:\n                pass\n')
mutant("c02-revert-notes-by-identity", ["C02"], "simfile/ssc.py",
       '            if key == notes_key:\n                continue\n', '            if value is self.notes:\n                continue\n')
mutant("c02-notedata-omitted-for-empty-chart", ["C02"], "simfile/ssc.py",
       '''        file.write(f"{MSDParameter(('NOTEDATA', ''))}\\n")''',
       '''        if len(self) > 1:\n            file.write(f"{MSDParameter(('NOTEDATA', ''))}\\n")''')
mutant("c02-chart-multi-value-escaped", ["C02"], "simfile/ssc.py",
       '            elif key in BaseSimfile.MULTI_VALUE_PROPERTIES:\n                param = MSDParameter((key, *value.split(":")))\n            else:\n                param = MSDParameter((key, value))\n            file.write(f"{param}\\n")\n\n        notes = ',
       '            else:\n                param = MSDParameter((key, value))\n            file.write(f"{param}\\n")\n\n        notes = ')
mutant("c01-loader-strips-trailing-newline-of-values", ["C01"], "simfile/sm.py",
       '                self[key] = param.value\n\n    @classmethod\n    def blank(cls: Type["SMSimfile"])',
       '                self[key] = param.value.rstrip("\\n") if param.value else param.value\n\n    @classmethod\n    def blank(cls: Type["SMSimfile"])')
# ------------------------------------------------------------------ C18
P = "simfile/_private/property.py"
mutant("c18-alias-preferred-when-both-present", ["C18"], P,
       '        if name not in self and alias and alias in self:', '        if alias and alias in self:')
mutant("c18-setter-always-writes-standard-key", ["C18"], P,
       '        self[_name_or_alias(self)] = value', '        self[name] = value')
mutant("c18-deleter-deletes-alias-only-path", ["C18"], P,
       '        del self[_name_or_alias(self)]', '        del self[alias if alias and alias in self else name]')
mutant("c18-smchart-delitem-allowed", ["C18"], "simfile/sm.py",
       '        """Raises NotImplementedError."""\n        raise NotImplementedError\n\n\nclass SMCharts',
       '        return super().__delitem__(property)\n\n\nclass SMCharts')
mutant("c18-revert-smchart-lowercase-guard", ["C18"], "simfile/sm.py",
       '        if property not in SM_CHART_PROPERTIES:\n            raise KeyError\n        else:\n            return super().__setitem__',
       '        if property.upper() not in SM_CHART_PROPERTIES:\n            raise KeyError\n        else:\n            return super().__setitem__')
mutant("c18-ssc-stops-alias-added", ["C18"], "simfile/base.py",
       '    stops = item_property("STOPS")', '    stops = item_property("STOPS", alias="FREEZES")')
# ------------------------------------------------------------------ C19
D = "simfile/dir.py"
mutant("c19-extension-match-case-sensitive", ["C19"], "simfile/_private/extensions.py",
       '    lower_path = path.lower()', '    lower_path = path')
mutant("c19-sm-preferred-over-ssc", ["C19"], D, '        return self.ssc_path or self.sm_path', '        return self.sm_path or self.ssc_path')
mutant("c19-isdir-test-dropped", ["C19"], D,
       '            if not self.filesystem.isdir(simfile_path):\n                continue\n',
       '            if not self.filesystem.exists(simfile_path):\n                continue\n')
mutant("c19-pack-descends-one-more-level", ["C19"], D,
       '                if extensions.match(simfile_item, *extensions.SIMFILE):\n                    yield simfile_path\n                    break\n',
       '                if extensions.match(simfile_item, *extensions.SIMFILE):\n                    yield simfile_path\n                    break\n                nested = self._path.join(simfile_path, simfile_item)\n                if self.filesystem.isdir(nested) and any(\n                    extensions.match(i, *extensions.SIMFILE) for i in self.filesystem.listdir(nested)\n                ):\n                    yield simfile_path\n                    break\n')
mutant("c19-ignore-duplicate-keeps-last", ["C19"], D,
       '                    if self.sm_path:\n                        if self._ignore_duplicate:\n                            continue\n',
       '                    if self.sm_path:\n                        if self._ignore_duplicate:\n                            self.sm_path = simfile_path\n                            continue\n')
mutant("c19-revert-openpack-kwargs", ["C19"], I, '            simfile_dir.open(**kwargs),', '            simfile_dir.open(),')
mutant("c19-pack-ignore-duplicate-not-forwarded", ["C19"], D,
       'yield SimfileDirectory(simfile_path, filesystem=self.filesystem, ignore_duplicate=self._ignore_duplicate)',
       'yield SimfileDirectory(simfile_path, filesystem=self.filesystem)')
mutant("c19-opendir-drops-strict", ["C19"], I,
       '    return (sd.open(**kwargs), cast(str, sd.ssc_path or sd.sm_path))',
       '    kwargs.pop("strict", None)\n    return (sd.open(**kwargs), cast(str, sd.ssc_path or sd.sm_path))')
mutant("c19-match-anywhere-not-suffix", ["C19"], "simfile/_private/extensions.py",
       '        if lower_path.endswith(extension):', '        if extension in lower_path:')
# ------------------------------------------------------------------ C20
A = "simfile/assets.py"
mutant("c20-cache-dropped-from-specified-branch", ["C20"], A,
       '            if case_insensitive_path:\n                return self._cache_path(prop, case_insensitive_path, absolute=True)',
       '            if case_insensitive_path:\n                return self._path.normpath(case_insensitive_path)')
mutant("c20-bn-anywhere", ["C20"], A, 'presets=["banner", "bn$"],', 'presets=["banner", "bn"],')
mutant("c20-case-insensitive-match-dropped", ["C20"], A,
       '                if item.lower() == filename_lower:', '                if item == filename:')
mutant("c20-nonexistent-specified-path-returned", ["C20"], A,
       '            if case_insensitive_path:\n                return self._cache_path(prop, case_insensitive_path, absolute=True)',
       '            if case_insensitive_path:\n                return self._cache_path(prop, case_insensitive_path, absolute=True)\n            if self.filesystem.isdir(self._path.split(full_path)[0]):\n                return self._cache_path(prop, full_path, absolute=True)')
mutant("c20-pack-banner-priority-ignored", ["C20"], D,
       '        for image_type in extensions.IMAGE:\n            for pack_item in self.filesystem.listdir(self.pack_dir):\n                if extensions.match(pack_item, image_type):\n                    return self._path.join(self.pack_dir, pack_item)',
       '        for pack_item in self.filesystem.listdir(self.pack_dir):\n            if extensions.match(pack_item, *extensions.IMAGE):\n                return self._path.join(self.pack_dir, pack_item)')
mutant("c20-dirlist-refreshed-and-not-cached", ["C20"], A,
       '        for file_in_simfile_dir in self._dirlist:\n            if asset_definition.matches(file_in_simfile_dir):\n                return self._cache_path(prop, file_in_simfile_dir)',
       '        for file_in_simfile_dir in self.filesystem.listdir(self.simfile_dir):\n            if asset_definition.matches(file_in_simfile_dir):\n                return self._path.normpath(self._path.join(self.simfile_dir, file_in_simfile_dir))')
mutant("c20-jacket-prefix-anywhere", ["C20"], A, 'presets=["^jk_", "jacket", "albumart"],', 'presets=["jk_", "jacket", "albumart"],')
mutant("c20-music-by-stem", ["C20"], A,
       '        if self.match_by_extension and extensions.match(path, *self.extensions):', '        if self.match_by_extension and extensions.match(root + _, *self.extensions[:3]):')


def run(cmd, **kw):
    return subprocess.run(cmd, capture_output=True, text=True, **kw)


def main():
    sel = sys.argv[1:]
    results = []
    for m in M:
        if sel and not any(s in m["name"] for s in sel):
            continue
        shutil.rmtree(SCRATCH, ignore_errors=True)
        os.makedirs(os.path.dirname(SCRATCH), exist_ok=True)
        run(["rsync", "-a", "--exclude", ".git", "--exclude", "__pycache__", "/repo/", SCRATCH + "/"])
        path = os.path.join(SCRATCH, m["file"])
        src = open(path).read()
        if src.count(m["old"]) < 1:
            results.append((m["name"], "PATCH-DOES-NOT-APPLY", ""))
            print("%-55s PATCH-DOES-NOT-APPLY" % m["name"])
            continue
        src = src.replace(m["old"], m["new"], m["count"])
        for o, n in m["more"]:
            assert o in src, (m["name"], o)
            src = src.replace(o, n, 1)
        open(path, "w").write(src)
        t = run(["/venv/bin/python", "-m", "pytest", "-q", "-p", "no:cacheprovider", "-x",
                 "--deselect", "simfile/tests/test_assets.py::TestAssets::test_predefined_assets"],
                cwd=SCRATCH, env=dict(os.environ, PYTHONPATH=SCRATCH))
        tests_ok = t.returncode == 0
        verdicts = []
        for prop in m["props"]:
            c = run([os.path.join(VERIF, "simcheck"), "check", prop, "--tier", "quick"],
                    cwd=VERIF, env=dict(os.environ, SIMFILE_REPO=SCRATCH))
            caught = c.returncode == 1 and ("VIOLATION property=%s" % prop) in c.stdout
            clause = ""
            for line in c.stdout.splitlines():
                if line.strip().startswith("clause:"):
                    clause = line.strip()[8:60]
                    break
            if c.returncode == 2:
                clause = "HARNESS-ERROR " + c.stdout[-200:].replace("\n", " ")
            verdicts.append("%s:%s%s" % (prop, "CAUGHT" if caught else "MISSED(rc=%d)" % c.returncode,
                                          " [" + clause + "]" if clause else ""))
        results.append((m["name"], "tests-pass" if tests_ok else "TESTS-FAIL", " ".join(verdicts)))
        print("%-55s %-10s %s" % results[-1])
        sys.stdout.flush()
    shutil.rmtree(SCRATCH, ignore_errors=True)
    # restore evidence files from the real repo is the caller's job (checks rewrite them)
    json.dump(results, open(os.path.join(VERIF, "out", "mutants.json"), "w"), indent=1)


if __name__ == "__main__":
    main()
