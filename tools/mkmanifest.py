import json, sys
built = sys.argv[1].split(",")
NA = {
 "C07": "NoteData(text) iteration is a pure function of one string: no stream, clock, fault, schedule or history for a simulator to own.",
 "C08": "NoteData.from_notes is a pure function of a note sequence and a column count; nothing to schedule or inject.",
 "C09": "group_notes / count_* are pure generator pipelines over an in-memory sequence with call-local state; consumer pull order cannot change results and no fault is in the property.",
 "C10": "ungroup_notes(group_notes(x)) is a pure function of the sequence and options.",
 "C11": "TimingEngine.time_at/bpm_at are pure functions of parsed timing strings; 'time' is the chart's musical timeline, not a clock the process reads.",
 "C12": "TimingEngine.beat_at is a pure function of timing data and a time value; the suspected defect depends on the input's event count, not on any schedule or fault.",
 "C13": "hittable / time_notes are pure functions of timing data and notes.",
 "C14": "Beat arithmetic and parsing are pure value computations.",
 "C15": "timing_source / displaybpm are pure functions over a finite configuration space; enumerating it would be model checking or exhaustive testing, not simulation.",
 "C16": "sm_to_ssc maps in-memory objects to a new object: no I/O, fault, interleaving or history beyond its arguments.",
 "C17": "ssc_to_sm likewise, parameterised by a policy table; a pure function of its arguments.",
}
TEXT = {
 "C01": ("exploration", "Seeded editor sessions on an SM simfile (edits through attributes and keys, chart list edits, extra components) with save and restart operations, saves that fail part-way and failing str() of other objects as history, a bystander object, values moved to another key as the same object, chart copies and the same chart object twice, sessions continued on deep / pickle copies; every save is checked against the reference model (strict re-parse equality both ways, token structure, idempotent re-serialisation, auto-detection). Sampling of histories and strings, not proof.", "4 C01"),
 "C02": ("exploration", "Same editor-session simulation on SSC simfiles and charts, including identity hazards (the same or an interned string object assigned to the note data and to other properties) generated as histories, note data moved between NOTES and NOTES2 as the same object, chart copies, one chart object at two list positions; every save/restart checked against the reference model.", "4 C02"),
 "C03": ("exploration", "Seeded MSD texts loaded through every entry point and stream behaviour (short reads, odd buffer sizes, file names of every kind, both facades, iterator / StringIO / TextIO / TextIOWrapper, texts with non-normalised Unicode, near-VERSION first keys, blank-only lines) and compared with a reference loader built on the trusted tokenizer.", "4 C03"),
 "C04": ("exploration", "Stored files damaged by simulated faults (truncation by an earlier kill, flipped / dropped / duplicated / spliced blocks) or merely messy are loaded, saved to the simulated disk, reloaded after a simulated restart (through open() or the class constructors) and saved again; history oracle over the four steps.", "4 C04"),
 "C05": ("exploration", "Seeded worlds (stored bytes in each code page, neighbours, pre-existing output/backup files), file-name configurations, try_encodings orders, edit scripts, both facades with short reads/writes and odd buffer sizes, names through directory symlinks and genuinely relative names, keyword arguments spelled out with their defaults; whole-disk byte snapshots before/after and the storage event log are judged against reference decoding/loading. Fault-free configuration only, so that no relaxation hides an ordinary bug.", "4 C05"),
 "C06": ("fault_enumeration", "For every sampled scenario (plus a fixed 36-configuration core matrix) every fault point is enumerated, not sampled: each storage call k of the fault-free trace x {EIO, ENOSPC, EACCES, kill, torn write}, err@k followed by err/kill at k+1 / k+2 and eight sampled fault pairs, every body position x 19 exception objects (classes and values: exit statuses, OSError / UnicodeError kinds, falsy exceptions, the classes a generator-based context manager treats specially), every unserialisable spoil and an unencodable character in every slot (value, key, chart field, note data, SM extra components); invariants raised from inside the simulated disk while the run proceeds and per-clause oracles afterwards. Scenarios themselves are sampled.", "4 C06"),
 "C18": ("exploration", "Two simulated clients (attribute view, key view) interleaved by the seeded scheduler on one shared object of each kind; after every operation the complete state, every documented attribute, the operation's own outcome, equality and serialisation are compared with a dictionary model; plus a fixed core of all two-step (and read-first three-step) histories over every aliased property from every presence state.", "4 C18"),
 "C19": ("exploration", "Seeded directory trees on the simulated disk with a listing-order adversary (stable or reshuffled permutations), both facades, loader options; discovery results compared with a reference computed from the tree by plain string operations; the same paths rescanned by fresh objects after the tree changed, objects kept alive and re-checked, a storage error at every call of SimfileDirectory.open() (may fail, never another simfile), and a tree changing right after the n-th listing (pairs handed out must stay consistent).", "4 C19"),
 "C20": ("exploration", "Same trees and listing adversary; every asset lookup compared with the set of admissible answers of a reference model, existence on the simulated disk, and stability of repeated lookups under reshuffled listings.", "4 C20"),
}
checks=[]
for pid in ["C01","C02","C03","C04","C05","C06","C18","C19","C20"]:
    if pid not in built: continue
    cat, text, ref = TEXT[pid]
    checks.append({
      "property_id": pid,
      "quick_cmd": "./simcheck check %s --tier quick" % pid,
      "thorough_cmd": "./simcheck check %s --tier thorough" % pid,
      "evidence_file": "evidence/%s.json" % pid,
      "replay_cmd_template": "./simcheck replay {path}",
      "engine": "simv",
      "level_claimed": {"category": cat, "text": text, "design_ref": "DESIGN.md section " + ref},
      "level_note": "Trusted base: msdparser's tokenizer and escaping, Python's io stack and codecs, PyFilesystem's FS.open/make_stream text layer (all run for real, not judged). Stubs: SimDisk/SimFS/NativeShim. Durability model is process kill, not power loss. A clean batch is evidence, not proof.",
      "technique": "deterministic simulation with fault injection: seeded single-process simulator (simulated disk, stream and caller seams), reference-model oracles, ddmin-minimised replay files" + ("; every fault point of each sampled save sequence enumerated" if pid=="C06" else ""),
    })
na=[{"property_id":k,"reason":v} for k,v in NA.items()]
for pid in ["C01","C02","C03","C04","C05","C06","C18","C19","C20"]:
    if pid not in built:
        na.append({"property_id":pid,"reason":"claimed in DESIGN.md; the check is still under construction in this build session and is therefore not registered yet"})
m={
 "version":1,
 "setup_cmd":"/venv/bin/python -c \"import sys; sys.path.insert(0,'/repo'); import simfile, msdparser, fs; print('ok', simfile.__file__)\"",
 "hooks":{"guard":"SIMFILE_VERIF","enable":"no hooks are needed: the storage, stream and caller seams are arguments of the public API and the native path is reached from outside by replacing the os/io globals of the simfile package and routing the file functions of os/io/builtins/posixpath by path prefix while a run is inside the facade; the guard name is reserved only",
          "baseline_off_cmd":"cd /repo && /venv/bin/python -m pytest -ra -q -p no:cacheprovider --timeout=900 --continue-on-collection-errors",
          "source_commits":[],"add_only":True},
 "engines":[{"name":"simv","path":"simv/","serves_properties":built,"kind_free_text":"own deterministic simulator (stdlib only): SimDisk + SimFS/NativeShim facades, seeded scenario generators, JSON scenarios, reference models, ddmin shrinker, replay, evidence"}],
 "checks":checks,
 "not_applicable":na,
 "notes":"All checks: exit 0 = held on everything explored; exit 1 + 'VIOLATION property=<id> replay=<path>'; exit 2 + 'HARNESS-ERROR' = the harness itself failed (never a violation). VERIF_SEED selects the batch. Known findings are listed in known_findings.json and printed as KNOWN-FINDING lines.",
}
json.dump(m,open('/verif/MANIFEST.json','w'),indent=1)
